#!/usr/bin/env python3
"""Maintains /verif/known_findings.json (committed; never written by a check).

Entries:  status "known"  -> a genuine defect recorded rather than repaired; a witness
                             whose mechanism key equals `key` is printed as KNOWN-FINDING
          status "fixed"  -> repaired by the named 'fix:' commit; suppresses nothing
The `line` field carries the textual form asked for by the task interface.
"""
import json
import os

HERE = os.path.dirname(os.path.dirname(os.path.abspath(__file__)))
PATH = os.path.join(HERE, "known_findings.json")

FIXED = [
    # (property, key, commit, what failed)
    ("C03", "C03/escape:IndexError@gopherp.py:canhandlerequest", "5535ab0",
     "request 'sel<TAB><CRLF>' (empty Gopher+ field): IndexError escaped getProtocol, client got no reply (also C02)"),
    ("C03", "C03/internal:StopIteration@mbox.py:getmessage", "d0b52ed",
     "'/x.mbox|/MBOX-MESSAGE/<n beyond last>' (same for Maildir, or on a non-mailbox / missing file: "
     "NoSuchMailboxError): empty reply instead of not-found"),
    ("C03", "C03/internal:ValueError@base.py:stat", "b0877f7",
     "selector containing NUL: os.stat ValueError escaped getHandler, empty reply instead of not-found (also C01)"),
    ("C03", "C03/internal:ValueError@gemini.py:handle", "bd37cbb",
     "'gemini://[::1/': urlparse ValueError, empty reply"),
    ("C03", "C03/malformed:gemini-status-followed-by-body", "0adb8cb",
     "'gemini://h/a%0d%0a20 text/plain' and Spartan 'h /a%0ab 0': decoded CR/LF echoed into the status line, "
     "error status followed by attacker-chosen lines"),
    ("C03", "C03/internal:OverflowError@spartan.py:handle", "959bb85",
     "Spartan content-length 99999999999999999999: OverflowError from rfile.read, empty reply"),
    ("C20", "C20/logged-as-IndexError", "6117a39",
     "except IOError: filenotfound(e.args[1]) in gopherp/http/gemini/spartan: single-argument errors (timeout, "
     "UnsupportedOperation, VFSZip IOErrors) were logged as IndexError and got no error reply (also C03)"),
    ("C04", "C04/gopherplus-length-of-decompressed-document", "65f9da4",
     "CompressedFileHandler + Gopher+ '+': length prefix was the compressed size (also C15, C03)"),
    ("C04", "C04/decompressor-writes-under-tls", "783c52d",
     "CompressedFileHandler passed the raw socket (TLS), a BytesIO (WAP) or read from a ZipExtFile (ZIP member) "
     "to subprocess: corrupted TLS stream / UnsupportedOperation (also C03, C16)"),
    ("C03", "C03/internal:UnsupportedOperation@http.py:handle", "68146b6",
     "executable script viewed through WAP: BytesIO passed to subprocess as stdout, UnsupportedOperation"),
    ("C19", "C19/no-chdir-after-chroot", "2942d89",
     "usechroot=yes: os.chroot() without chdir, the serving process kept a working directory outside the new root"),
    ("C05", "C05/link-not-found:http:name-starts-with-waptop", "795249e",
     "a file or directory whose name starts with 'wap' (/wapiti.txt, /wapdir) followed from the HTTP listing was "
     "claimed by WAP (prefix test without path boundary) and answered not-found (also C02)"),
    ("C05", "C05/link-kind:doc-advertised-prompt-served:gemini", "8902922",
     "/GEMINI-QUERYx.txt followed from the Gemini listing was answered '10 Enter input'"),
    ("C05", "C05/gopher-selector-has-spartan-request-shape", "2a6e19d",
     "gopher selector '/a b 12' (two blanks, trailing number) followed from the Gopher menu was claimed by Spartan "
     "and answered '4 not found' (also C02)"),
    ("C06", "C06/search-string-altered:http+wap:non-utf8", "1c7f70b",
     "HTTP/WAP searchrequest with bytes that are not UTF-8 reached the handler as U+FFFD (parse_qs errors=replace)"),
    ("C07", "C07/order-depends-on-enumeration:several-link-files", "eb5714f",
     "two link files in one directory: merged names and order of tied entries depended on os.listdir order"),
    ("C08", "C08/extra-entry:link-of-hidden-type", "313b08d",
     "'Path=./name' + 'Type=-' was displayed (type '-' transmitted); new link entries of type X or - were displayed"),
    ("C09", "C09/listing-failed:gopherp", "1f565af",
     "*.gophermap file: Gopher+ length header was the file size, HTTP Content-Type text/plain for an HTML listing "
     "(also C03, C04, C06, C15)"),
    ("C09", "C09/protocols-disagree:http", "57c681e",
     "entry with a host but no port: Gopher defaults to the server's port, HTTP/Gemini/Spartan hard-coded 70 (also C06)"),
    ("C11", "C11/dir-cache-prefix:empty-reply:EOFError", "352a5d6",
     "every proper prefix of .cache.pygopherd.dir (0..size-1), a zero-filled file, and a reader racing a writer: "
     "unguarded pickle.load raised EOFError/UnpicklingError, empty reply (also C14)"),
    ("C12", "C12/directory-lost:dangling-symlink:error-reply", "9218e4f",
     "one dangling symlink, FIFO, socket, a name containing '..' / '.\\' / '\\\\', a child that vanished or "
     "whose stat failed made the whole directory answer not-found"),
    ("C13", "C13/markup-injected:gophermap-description-and-selector:http", "2edb5f2",
     "gophermap / link-file entry 'hEvil<TAB>URL:http://x/\"><script>' (or a remote host name with quotes) was written "
     "unescaped into HREF=\"...\" by the HTTP and WAP renderers"),
    ("C16", "C16/real-file-handler-acted-on-member:open", "741e763",
     "mailbox/Maildir/script/PYG members of an archive: isinstance(vfs, VFS_Real) is true for VFSZip; mbox('mail.mbox') "
     "opened and Maildir('md') created relative to the working directory (also C01)"),
    ("C16", "C16/nested-archive-probed-in-working-directory", "2d601e8",
     "ZIP member inner.zip: zipfile.is_zipfile('inner.zip') and the index cache were evaluated relative to the working "
     "directory; reply depended on files outside the root, cache files created there (also C01)"),
    ("C20", "C20/file-finalised-unclosed:mailbox-folder", "75b5c62",
     "mbox/Maildir handlers never closed the mailbox: file left to the garbage collector on every folder listing and "
     "message, also when the connection failed mid-response"),
    ("C14", "C14/ForkingTCPServer:zip:empty-reply", "9c3b2ab",
     "concurrent requests for one ZIP archive: concurrent rebuilds of the dbm.dumb index cache made shelve.open(...,'n') "
     "raise SyntaxError/dbm.error (only OSError was caught): empty reply"),
    ("C01", "C01/outside-access:os.stat:elsewhere:object", "abf914c",
     "gophermap entry with selector 'URL:http://...' (no leading slash): the handler stat()ed root + 'URL:...', a path "
     "beside the document root"),
    ("C12", "C12/directory-lost:dot-dangling-symlink:error-reply", "66bbea0",
     "a dangling symlink named '.x' made the UMN listing fail (read as a link file, IOError uncaught); a FIFO named '.x' "
     "made open() block forever: every listing of the directory hung (C12/request-never-returns@base.py:open)"),
    ("C16", "C16/differs:dir:menu-vs-any:gopher", "0624b51",
     "archive with 'a/link -> ../dirlink/file' and 'dirlink -> realdir' stored later: failed lookups of the first "
     "resolution pass were cached in invalid_paths, everything below dirlink stayed not-found"),
    ("C16", "C16/nested-archive-index-read-from-working-directory", "ddeba46",
     "nested archive + outer member '.cache.pygopherd.zip3.inner.zip': shelve.open() of that relative path unpickled a "
     "dbm file from the server's working directory and served a listing from it (also C01)"),
    ("C03", "C03/malformed:gopher-th-field-is-not", "e9049bf",
     "a TAB inside an abstract line or display name became an extra field of the Gopher menu line"),
    ("C17", "C17/content-text-keyword", "25933b9",
     "tal:content/replace=\"text expr\": the keyword test looked at the wrong word, element emptied (D19)"),
    ("C17", "C17/exists-nocall-alternation-first-path-unstripped", "c174ad8",
     "exists:a | b / nocall:a | b with a blank before the bar: first alternative looked up unstripped, never found"),
    ("C17", "C17/exists-alternation-later-path-truthiness", "3aa44a5",
     "exists:missing|z with z existing but false (0, nothing, empty) was false"),
    ("C17", "C17/exists-on-repeat-variable-realvalue", "60683bc",
     "exists:repeat/x / nocall:repeat/x inside the loop raised KeyError('realValue'), expansion aborted"),
    ("C18", "C18/passthrough-script-style-content-escaped", "68d60d0",
     "TAL-free document with < & inside <script>/<style>: content HTML-escaped on every expansion (not equivalent, "
     "not a fixed point)"),
    ("C03", "C03/history-dependent:GopherProtocol/UMNDirHandler", "4de2aba",
     "a request for '<dir>/.' (or '/.'): accepted, listed empty (every child '<dir>/./x' is refused) and that empty listing saved "
     "as the directory cache of the real <dir>: every later client of <dir> got an empty menu until the cache expired (also C10)"),
    ("C03", "C03/history-dependent:WAPProtocol/UMNDirHandler", "e4f1e64+d5eabe4",
     "a request for '<dir>//': normalised to '<dir>/', listed empty (children '<dir>//x' refused) and saved as the cache of <dir> "
     "(the same poisoning as '<dir>/.')"),
    ("C04", "C04/not-a-document-reply:gopherp:plain", "3e7d7b9",
     "'+' request for a .html.tal document: '+<size of the template file>' followed by the expansion (another length)"),
    ("C03", "C03/internal:ValueError@logger.py:log_syslog", "f9eb3c7",
     "logmethod = syslog (the shipped default) and a selector containing NUL: syslog.syslog() raises ValueError while the request "
     "is being logged, no reply"),
    ("C03", "C03/internal:ValueError@spartan.py:handle", "20b197a",
     "Spartan request whose content length has more than 4300 digits: int() raises ValueError, no reply"),
    ("C04", "C04/request-failed:gopher:plain", "b0f5438",
     "ZIP handler enabled and a *.zip file that holds an end-of-central-directory record but no readable directory (the last 22 "
     "bytes of an archive): is_zipfile() says yes, VFSZip() raises BadZipFile, connection closed without a reply in every protocol"),
    ("C01", "C01/outside-access:os.listdir:elsewhere:type-prefixed", "5bf9db2",
     "TAL handler enabled (allowpythonpath off) and a template whose path expressions climb through the loaders it is given "
     "('root/../getchildrennames', 'root/../other/macros/m', 'dir/../../SIBLING/...'): the directory above the document root is "
     "listed into the page, templates from there are compiled and used"),
    ("C06", "C06/entries-differ:http:target", "268ac97",
     "a link-file or gophermap entry for the top of the site (Path=/ on this host): Gopher, Gemini and Spartan point at the root "
     "menu, the HTTP and WAP pages carry HREF="", which resolves to the page the link is on"),
    ("C12", "C12/directory-lost:vanishes-after-stat+linkfile-gophermap:error-reply", "10d7f11",
     "a directory presented through a gophermap, and a local link of that map whose target is removed between the handler's "
     "exists() and its description (populatefromvfs): FileNotFoundError escapes prepare(), the whole menu is answered with an error"),
    ("C13", "C13/gopher-menu-line-broken-by-content", "c0c5532",
     "a file whose name holds CR LF followed by block-header text ('n\r\n+ADMIN:\r\n Admin: Mallory'): the name went into the "
     "menu line and the +INFO line as it was, so the Gopher+ listing of its directory showed a block (or an item) of the name's making"),
    ("C16", "C16/differs:dir:menu-vs-any:gopher", "5bd700e",
     "a gophermap inside an archive with an absolute link to an object of the site ('0Site file<TAB>/ZQXSITE-file.txt'): looked up "
     "among the members under the selector minus len(zipfilename) characters -- not found (the line loses its Gopher+ flag and "
     "abstract, unlike on disk) or found by accident (described as that member)"),
    ("C16", "C16/differs:dir:menu-vs-any:gopher", "80ca1cd",
     "a gophermap inside an archive linking a member directory with a trailing slash ('1Docs<TAB>docs/'): the sidecar look-up "
     "'docs//.abstract' succeeds on disk and fails in the archive, so the directory's abstract/keywords blocks are lost there"),
    ("C03", "C03/internal:ValueError@mbox.py:canhandlerequest", "f1b5709",
     "'/x.mbox|/MBOX-MESSAGE/<more than 4300 digits>': int() raises ValueError, no reply"),
    ("C03", "C03/internal:ValueError@scriptexec.py:write", "c29dce8",
     "a search string containing NUL sent to an executable: 'embedded null byte' from subprocess, no reply"),
    ("C12", "C12/directory-lost:vanishes-after-stat+named.html:error-reply", "b0ad4cc",
     "a child that is stat()ed successfully but cannot be opened (deleted in between, mode 000 under an unprivileged server, EIO) "
     "and whose handler reads it to describe it (.html title, .html.tal, .zip, .gophermap): OSError from getentry() turned the "
     "whole directory listing into an error reply"),
    ("C12", "C12/request-never-returns@base.py:open", "9f696ad",
     "a FIFO named like a healthy entry's sidecar ('alpha.txt.3d', 'gamma/.abstract') or like its .cap file ('.cap/alpha.txt'): "
     "open() never returns, every listing of the directory hangs"),
    ("C01", "C01/reply-depends-on-outside-world:outside-populated:object", "00133d0",
     "listing a directory whose gophermap holds a climbing link ('0x<TAB>../../secret.txt', '/../secret.txt'): the server "
     "stat()ed the file above the root, opened its .abstract sidecar and showed type, size and abstract in the listing"),
]

KNOWN = [
    # (property, key, what fails)
    ("C03", "C03/directory-reached-through-a-symlink-shares-its-cache-file",
     "a directory that is also reachable through a symbolic link inside the site (link -> dir): both names share one cache "
     "file, which stores the selectors of whoever wrote it -- after /link was listed, /dir is listed with /link/... selectors "
     "(and vice versa) until the cache expires; the links work, the reply depends on an earlier read-only request"),
]


def main():
    old = {}
    if os.path.exists(PATH):
        for f in json.load(open(PATH)).get("findings", []):
            old[(f["property"], f["key"])] = f
    out = []
    for prop, key, commit, what in FIXED:
        out.append({"property": prop, "key": key, "status": "fixed", "commit": commit, "what_fails": what,
                    "line": "fixed: property=%s %s %s" % (prop, commit, what)})
        old.pop((prop, key), None)
    for prop, key, what in KNOWN:
        out.append({"property": prop, "key": key, "status": "known", "what_fails": what,
                    "line": "known: property=%s %s" % (prop, what)})
        old.pop((prop, key), None)
    # entries added by hand / by sub-agents are kept
    out.extend(old.values())
    json.dump({"findings": out}, open(PATH, "w"), indent=1)
    print(len(out), "entries")


if __name__ == "__main__":
    main()
