#!/usr/bin/env python3
"""Regenerates the table of seeded changes in DESIGN.md (between the seedtable markers)
from seeded/*/meta.json."""
import glob, json, os, re
rows = []
missed = 0
def keyf(d):
    b = os.path.basename(d.rstrip("/")); p, n = b.split("-"); return (p, int(n))
dirs = sorted(glob.glob("/verif/seeded/*/"), key=keyf)
for d in dirs:
    sid = os.path.basename(d.rstrip("/"))
    m = json.load(open(d + "meta.json"))
    rem = (m.get("remarks") or "").strip()
    first = "yes: " + rem if rem.lower().startswith(("missed", "yes")) or "missed at first" in rem.lower() else (rem or "-")
    if first.startswith("yes"):
        missed += 1
    esc = lambda t: t.replace("|", "\\|").replace("\n", " ")
    rows.append("| %s | %s | %s | %s |" % (sid, esc(m["needs_to_manifest"]), ", ".join(m["detected_by"]), esc(first)))
table = ["| id | needs, in order to manifest | caught by | missed at first? what changed |", "|---|---|---|---|"] + rows
text = open("/verif/DESIGN.md").read()
begin, end = "<!-- seedtable:begin -->", "<!-- seedtable:end -->"
block = begin + "\n%d changes; %d were missed by the checks as they stood when the change was written.\n\n" % (len(rows), missed) + "\n".join(table) + "\n" + end
if begin in text:
    text = re.sub(re.escape(begin) + r".*?" + re.escape(end), lambda _m: block, text, flags=re.S)
else:
    raise SystemExit("markers missing in DESIGN.md")
open("/verif/DESIGN.md", "w").write(text)
print(len(rows), "rows,", missed, "missed at first")
