#!/usr/bin/env python3
"""Regenerates /verif/MANIFEST.json from the table below (run after adding a check)."""
import json
import os

HERE = os.path.dirname(os.path.dirname(os.path.abspath(__file__)))

# id -> (category, technique, level text, level note, design ref)
CHECKS = {
    "C03": ("exploration",
            "runtime monitoring: real connection handler over socketpairs, independent per-protocol "
            "response validators, escape/log/stderr monitors, history replay against pristine baselines",
            "Held on the executions produced: thousands of generated well-formed, malformed and hostile request "
            "lines in all protocol syntaxes against generated sites (both handler lists), each reply parsed by an "
            "independent validator for the protocol that answered; every exception escaping the handler or logged "
            "with a non-I/O class is a violation; request histories on a persistent tree must reproduce the "
            "pristine-tree replies. Exploration is the right level: the input space is unbounded.",
            "Trusted: the independent parsers in vf/parsers.py, the socketpair driver, the log line format.",
            "DESIGN.md §3 C03"),
    "C02": ("exploration",
            "runtime monitoring: laws checked on the real protocol classes (isolated shape tests vs multiplexer "
            "result, determinism, TLS strictness) + independent request classifier + live first-byte sweep (256 values)",
            "Held on the executions produced: thousands of generated first lines x TLS/plaintext x header blocks x "
            "protocol orders, each evaluated on the real classes; the 256 first-byte values are enumerated completely on "
            "a live connection with and without a TLS context.",
            "Trusted: mock-TLS socket for the law part (check_tls is an isinstance test), genuine TLS for the sweep; "
            "the reference classifier abstains where the documents are silent.",
            "DESIGN.md §3 C02"),
    "C04": ("exploration",
            "runtime monitoring: byte-for-byte comparison of fetched documents with the files written by the harness, "
            "Gopher+ length, HEAD vs GET, MIME type vs independently parsed mime.types, WML inversion",
            "Held on the executions produced: files at and around every multiple of the 4096-byte copy block, five "
            "content classes, five name classes, compressed files with and without the decompressing handler, fetched "
            "through 10 protocol views over mock and genuine TLS.",
            "Trusted: the socketpair driver, the response parsers, the harness's own copy of the file bytes.",
            "DESIGN.md §3 C04"),
    "C05": ("exploration",
            "runtime monitoring: per-protocol crawler following every link the server itself emits, exactly as "
            "emitted, with an oracle on success, answering protocol and advertised kind",
            "Held on the executions produced: whole-site crawls from / in 8 protocol views over generated sites "
            "(names with spaces, reserved URL characters, non-UTF-8 bytes, names adjacent to the protocols' reserved "
            "words), both handler lists.",
            "Trusted: the independent listing readers in vf/crawl.py.",
            "DESIGN.md §3 C05"),
    "C06": ("exploration",
            "runtime monitoring: differential comparison of one directory read through 10 protocol views by independent "
            "listing readers; MIME equality across protocols; search-string echo through 8 submission mechanisms",
            "Held on the executions produced: every directory of generated sites x 10 views x abstract settings x "
            "trailing slash; every object's type in 5 views; ~30 search strings (reserved characters, invalid UTF-8) "
            "echoed by a script and a PYG handler.",
            "Trusted: the listing readers; the echo script/PYG module written by the harness.",
            "DESIGN.md §3 C06"),
    "C07": ("exploration",
            "runtime monitoring: reference visibility predicate vs the listed set; interposed os.listdir applying "
            "permutations (exhaustive for small directories) with byte-identical listings required; exact-selector "
            "retrieval of kept-out names",
            "Held on the executions produced: generated directories with names on both sides of every alternative of "
            "the shipped ignore pattern, dot-files, Type=X metadata, several link files; all permutations of the "
            "enumeration order for directories of <= 5 (quick) / 6 (thorough) names, sampled beyond.",
            "Trusted: os.listdir interposition (hit counter must equal the number of permuted listings).",
            "DESIGN.md §3 C07"),
    "C19": ("fault_enumeration",
            "runtime monitoring: strace of the real bin/pygopherd start-up (syscall order), /proc end state, live "
            "requests; strace syscall fault injection for every privileged call",
            "Exhaustive over the 8 usechroot/setuid/setgid combinations and every privileged call failing in turn "
            "(EPERM injected by strace), plus unknown user/group; verdict from the recorded syscall order and the "
            "process's credentials, root and cwd in /proc.",
            "Trusted: strace, /proc; needs root + CAP_SYS_CHROOT + ptrace (else in-process fallback, recorded in the "
            "evidence).",
            "DESIGN.md §3 C19"),
    "C08": ("exploration",
            "runtime monitoring: Gopher menus of generated UMN directories compared with an independent reference "
            "reader of link files, .cap files and abstracts written from the manual",
            "Held on the executions produced: hundreds of generated directories (0-3 link files with 1-4 blocks in any "
            "line order, .cap overrides, Type=X/-, Host=+/Port=+, positive/negative Numb, sidecar and Abstract= "
            "abstracts with continuations, three extstrip modes), each menu compared line by line with the reference.",
            "Trusted: the reference reader vf/checks/c08.py:umn_ref (abstains on constructs the manual leaves open).",
            "DESIGN.md §3 C08"),
    "C09": ("exploration",
            "runtime monitoring: listings of generated gophermaps compared with an independent reference reading "
            "(Gopher field by field; 8 other protocol views as entry sequences)",
            "Held on the executions produced: hundreds of generated gophermaps (info/blank/link lines with 1-4 fields, "
            "absolute/relative/URL: selectors, remote hosts with and without port) at depth 0-3 and as *.gophermap "
            "files, on a server advertised on a non-default port.",
            "Trusted: gophermap_ref and the listing readers of vf/crawl.py.",
            "DESIGN.md §3 C09"),
    "C10": ("exploration",
            "runtime monitoring: offline-free history checker - an executable cache model decides hit/miss for every "
            "request of generated histories; hits compared with per-protocol renderings recorded from a lifetime-0 twin "
            "when the entry was written; clock advances by ageing the cache file's mtime",
            "Held on the executions produced: 80 (quick) / 16x400 (thorough) histories of 12-40 operations "
            "(mutations, ageing on both sides of the lifetime, requests through 9 views) on 1-3 directories, both "
            "directory handlers, lifetimes 0 and 1000.",
            "Trusted: the cache model (20 lines), equivalence of 'advance clock by D' and 'mtime -= D' for a freshness "
            "test that reads only time.time() and st_mtime.",
            "DESIGN.md §3 C10"),
    "C11": ("fault_enumeration",
            "runtime monitoring with fault injection: every prefix length (thorough) / stride (quick) of the cache "
            "files the server wrote, zero-filled and garbage files, ZIP index cache files; threads reading while others "
            "rewrite with a pause injected between truncate and dump",
            "Fault enumeration over cut positions of real cache files; each faulted read must give the byte-identical "
            "uncached listing. The thorough tier enumerates every prefix length.",
            "Trusted: pause injection through a delegating stand-in for the name `pickle` in pygopherd.handlers.dir.",
            "DESIGN.md §3 C11"),
    "C12": ("fault_enumeration",
            "runtime monitoring with fault injection: real special files/symlinks/hostile names and interposed "
            "os.listdir/os.stat faults, listing compared with a twin directory without the faulty entries",
            "Enumerates fault kind (10) x sort position (4) x directory size x directory handler (2), singles and pairs, "
            "through 7 protocol views.",
            "Trusted: os.listdir/os.stat interposition (hit counter checked).",
            "DESIGN.md §3 C12"),
    "C13": ("exploration",
            "runtime monitoring: differential element/attribute skeletons (inert vs hostile data) of every generated page "
            "parsed with an independent HTML parser, canary elements/attributes, HTTP header whitelist, Gopher+ block "
            "structure under block-header look-alikes",
            "Held on the executions produced: 11 echo positions x ~12-30 payloads x HTTP/HTTPS/WAP (+Gopher+ listings "
            "from hostile sidecars).",
            "Trusted: html.parser as the model of how a browser tokenises the page.",
            "DESIGN.md §3 C13"),
    "C15": ("exploration",
            "runtime monitoring: parsed block structure of $ / ! / + replies compared with the plain Gopher menu, the "
            "configured MIME table, file sizes and the sidecar files' lines",
            "Held on the executions produced: 200 (quick) generated directories with every subset of the four sidecars "
            "on files and directories, virtual items, sizes around the 1024-byte unit.",
            "Trusted: the Gopher+ parser in vf/parsers.py.",
            "DESIGN.md §3 C15"),
    "C16": ("exploration",
            "runtime monitoring: differential /T.zip/<sel> vs /T/<sel> (same tree extracted) over all members, "
            "directories, link targets, missing names and hostile suffixes in 10 protocol views; audit-hook monitor "
            "for real-file-only handlers; escaping symlink members",
            "Held on the executions produced: generated archives with explicit/implicit directories, UTF-8-flag and raw "
            "byte names, metadata files, five kinds of symlink members, nested and special members.",
            "Trusted: the harness's ZIP writer (vf/trees.py to_zip) and the extracted mirror.",
            "DESIGN.md §3 C16"),
    "C14": ("exploration",
            "runtime monitoring under stress: real server processes (threading and forking, TLS) with 16 clients in "
            "flight, cache files removed/aged mid-burst, seeded yield injection via sys.monitoring LINE events in "
            "pygopherd/shelve/dbm code; differential against a separate never-concurrent server process; /proc process "
            "table for zombies; in-server audit log for observed overlaps",
            "Held on the executions produced: 6 (quick) / 40 (thorough) fresh server processes x 200/600 mixed requests; "
            "evidence reports cache-file opens and the reads/writes that fell within 5 ms of another worker's write.",
            "Trusted: the sequential reference server; interleavings are sampled, not enumerated; the GIL excludes some "
            "C-level races.",
            "DESIGN.md §3 C14"),
    "C20": ("fault_enumeration",
            "runtime monitoring with fault injection: the connection's sendall fails at every write index of every "
            "response kind with EPIPE / ECONNRESET / single-argument timeout; monitors on handle_error, log records, "
            "/proc/self/fd and ResourceWarning",
            "Enumerates (response kind x protocol view x error class x write index); all indices for responses of up "
            "to 60 (quick) / 200 (thorough) writes.",
            "Trusted: the faulty socket subclass; descriptors compared after gc.collect().",
            "DESIGN.md §3 C20"),
    "C01": ("exploration",
            "runtime monitoring: audit-hook + interposed stat/lstat/access/readlink monitor on every request, "
            "three-world differential (only the outside of the root and the cwd differ), not-found oracle for climbing "
            "requests, snapshot of everything outside the root",
            "Held on the executions produced: ~5 700 requests (quick) per run: every object of generated sites in every "
            "protocol view, traversal tokens at every path position, climbs from directories/archives/virtual-argument "
            "suffixes, 1-3 percent-encoding layers, URL: forms, random lines; both handler lists; worlds A/B/C.",
            "Trusted: CPython audit events (no events exist for stat-family calls: those are interposed as os module "
            "attributes); helper programs' own effects are attributed to the helper; no symlink leaves the root.",
            "DESIGN.md §3 C01"),
    "C17": ("exploration",
            "runtime monitoring: differential execution of simpleTAL against an independent tree-walking TAL/TALES/METAL "
            "evaluator on normalised event streams; structural monitor on every compiled program (scope bracketing, jump "
            "targets, macro/slot ranges); dynamic monitor on every execute (scope and local-stack depth)",
            "Held on the executions produced: 4 000 (quick) / 16 x 80 000 (thorough) grammar-generated (template, context) "
            "pairs; evidence counts programs inspected, jump targets and scopes checked, executes monitored.",
            "Trusted: vf/talref.py (abstains on the constructs listed in its ASSUMPTIONS).",
            "DESIGN.md §3 C17"),
    "C18": ("exploration",
            "runtime monitoring: canary payloads vs inert twins (skeleton equality, no canary element/attribute); python: "
            "gate observed through side effects and an audit hook, directly and through TALFileHandler, including "
            "off-after-on sequences; pass-through equivalence and fixed point; context snapshots before/after",
            "Held on the executions produced: ~10 000 cases per quick run across the four sub-checks.",
            "Trusted: html.parser as the tokeniser; the side-effect canaries.",
            "DESIGN.md §3 C18"),
}

NOT_YET = "check not built yet in this session (work in progress); see DESIGN.md §3 for the planned monitor"


def main():
    props = [json.loads(l) for l in open(os.path.join(HERE, "properties.jsonl"))]
    checks = []
    na = []
    for p in props:
        pid = p["id"]
        if pid in CHECKS:
            cat, tech, text, note, ref = CHECKS[pid]
            checks.append({
                "property_id": pid,
                "quick_cmd": "./check %s --tier quick" % pid,
                "thorough_cmd": "./check %s --tier thorough" % pid,
                "evidence_file": "evidence/%s.json" % pid,
                "replay_cmd_template": "./check %s --replay {path}" % pid,
                "engine": "vf",
                "level_claimed": {"category": cat, "text": text, "design_ref": ref},
                "level_note": note,
                "technique": tech,
            })
        else:
            na.append({"property_id": pid, "reason": NOT_YET})
    man = {
        "version": 1,
        "setup_cmd": "/venv/bin/python -c \"import sys; sys.path.insert(0, '.'); import vf.common, vf.driver\"",
        "hooks": {
            "guard": "PYGOPHERD_VERIF",
            "enable": "no source hooks: all interposition is done from the harness process (monkey-patching, "
                      "audit hooks, sitecustomize on PYTHONPATH, strace)",
            "baseline_off_cmd": "cd /repo && /venv/bin/python -m pytest -ra -q -p no:cacheprovider --timeout=900 "
                                "--continue-on-collection-errors",
            "source_commits": [],
            "add_only": True,
        },
        "engines": [{
            "name": "vf", "path": "vf/",
            "serves_properties": sorted(CHECKS),
            "kind_free_text": "Python runtime-monitoring harness: drives the real pygopherd/simpletal code from the "
                              "/repo working tree (in process over socketpairs, or the real bin/pygopherd process), "
                              "observes with log/exception/audit/strace monitors and independent parsers and "
                              "reference models",
        }],
        "checks": checks,
        "notes": "All checks run the working tree in /repo (override with VF_REPO). Exit 0 held / 1 violation / "
                 "2 inconclusive. Known findings: known_findings.json.",
        "not_applicable": na,
    }
    with open(os.path.join(HERE, "MANIFEST.json"), "w") as fp:
        json.dump(man, fp, indent=1)
    print("checks:", len(checks), "not_applicable:", len(na))


if __name__ == "__main__":
    main()
