#!/usr/bin/env python3
"""Regenerates /verif/MANIFEST.json from the table below (run after adding a check)."""
import json
import os

HERE = os.path.dirname(os.path.dirname(os.path.abspath(__file__)))

# id -> (category, technique, level text, level note, design ref)
CHECKS = {
    "C03": ("exploration",
            "runtime monitoring: real connection handler over socketpairs, independent per-protocol "
            "response validators, escape/log/stderr monitors, history replay against pristine baselines",
            "Held on the executions produced: thousands of generated well-formed, malformed and hostile request "
            "lines in all protocol syntaxes against generated sites (both handler lists), each reply parsed by an "
            "independent validator for the protocol that answered; every exception escaping the handler or logged "
            "with a non-I/O class is a violation; request histories on a persistent tree must reproduce the "
            "pristine-tree replies. Exploration is the right level: the input space is unbounded.",
            "Trusted: the independent parsers in vf/parsers.py, the socketpair driver, the log line format.",
            "DESIGN.md §3 C03"),
}

NOT_YET = "check not built yet in this session (work in progress); see DESIGN.md §3 for the planned monitor"


def main():
    props = [json.loads(l) for l in open(os.path.join(HERE, "properties.jsonl"))]
    checks = []
    na = []
    for p in props:
        pid = p["id"]
        if pid in CHECKS:
            cat, tech, text, note, ref = CHECKS[pid]
            checks.append({
                "property_id": pid,
                "quick_cmd": "./check %s --tier quick" % pid,
                "thorough_cmd": "./check %s --tier thorough" % pid,
                "evidence_file": "evidence/%s.json" % pid,
                "replay_cmd_template": "./check %s --replay {path}" % pid,
                "engine": "vf",
                "level_claimed": {"category": cat, "text": text, "design_ref": ref},
                "level_note": note,
                "technique": tech,
            })
        else:
            na.append({"property_id": pid, "reason": NOT_YET})
    man = {
        "version": 1,
        "setup_cmd": "/venv/bin/python -c \"import sys; sys.path.insert(0, '.'); import vf.common, vf.driver\"",
        "hooks": {
            "guard": "PYGOPHERD_VERIF",
            "enable": "no source hooks: all interposition is done from the harness process (monkey-patching, "
                      "audit hooks, sitecustomize on PYTHONPATH, strace)",
            "baseline_off_cmd": "cd /repo && /venv/bin/python -m pytest -ra -q -p no:cacheprovider --timeout=900 "
                                "--continue-on-collection-errors",
            "source_commits": [],
            "add_only": True,
        },
        "engines": [{
            "name": "vf", "path": "vf/",
            "serves_properties": sorted(CHECKS),
            "kind_free_text": "Python runtime-monitoring harness: drives the real pygopherd/simpletal code from the "
                              "/repo working tree (in process over socketpairs, or the real bin/pygopherd process), "
                              "observes with log/exception/audit/strace monitors and independent parsers and "
                              "reference models",
        }],
        "checks": checks,
        "notes": "All checks run the working tree in /repo (override with VF_REPO). Exit 0 held / 1 violation / "
                 "2 inconclusive. Known findings: known_findings.json.",
        "not_applicable": na,
    }
    with open(os.path.join(HERE, "MANIFEST.json"), "w") as fp:
        json.dump(man, fp, indent=1)
    print("checks:", len(checks), "not_applicable:", len(na))


if __name__ == "__main__":
    main()
