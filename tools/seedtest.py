#!/usr/bin/env python3
"""Confirm a seeded change and run checks against it, on a scratch copy of /repo.

usage: seedtest.py PATCH DEMO --check C07[,C08] [--tier quick] [--seeds 0,1]
Prints: demo on clean copy (must pass), demo with patch (must fail), test-suite with patch
(must pass), and each check's verdict with the patch (VF_REPO=<copy>).
"""
import argparse
import os
import shutil
import subprocess
import sys
import tempfile

ap = argparse.ArgumentParser()
ap.add_argument("patch")
ap.add_argument("demo")
ap.add_argument("--check", required=True)
ap.add_argument("--tier", default="quick")
ap.add_argument("--seeds", default="0")
ap.add_argument("--skip-confirm", action="store_true")
a = ap.parse_args()

d = tempfile.mkdtemp(prefix="seed-", dir="/var/tmp")
os.chmod(d, 0o755)  # servers that run as another user must be able to reach the copy
rc_all = 0
try:
    dst = os.path.join(d, "repo")
    shutil.copytree("/repo", dst, ignore=shutil.ignore_patterns(".git", "__pycache__", ".cache*"))
    env = dict(os.environ, PYTHONDONTWRITEBYTECODE="1", PYTHONPATH=dst)
    if not a.skip_confirm:
        r = subprocess.run(["/venv/bin/python", a.demo], cwd=dst, env=env, capture_output=True, text=True, timeout=900)
        print("DEMO clean   rc=%d %s" % (r.returncode, (r.stdout.strip().splitlines() or [""])[-1][:150]))
    r = subprocess.run(["git", "apply", "--whitespace=nowarn", a.patch], cwd=dst, capture_output=True, text=True)
    if r.returncode:
        print("PATCH does not apply:", r.stderr[:300])
        sys.exit(3)
    if not a.skip_confirm:
        r = subprocess.run(["/venv/bin/python", a.demo], cwd=dst, env=env, capture_output=True, text=True, timeout=900)
        print("DEMO patched rc=%d %s" % (r.returncode, (r.stdout.strip().splitlines() or [""])[-1][:150]))
        subprocess.run(["git", "clean", "-fdxq", "testdata"], cwd=dst, capture_output=True)
        for f in os.listdir(os.path.join(dst, "testdata")):
            if f.startswith(".cache"):
                os.unlink(os.path.join(dst, "testdata", f))
        r = subprocess.run(["/venv/bin/python", "-m", "pytest", "-q", "-p", "no:cacheprovider", "--timeout=600",
                            "--deselect", "tests/handlers/test_zip.py::TestVFSZip::test_save_cache"],
                           cwd=dst, capture_output=True, text=True)
        print("TESTS patched:", (r.stdout.strip().splitlines() or [r.stderr[-200:]])[-1])
        for dp, dn, fn in os.walk(os.path.join(dst, "testdata")):
            for f in fn:
                if f.startswith(".cache"):
                    os.unlink(os.path.join(dp, f))
    for c in a.check.split(","):
        for seed in a.seeds.split(","):
            env2 = dict(os.environ, VF_REPO=dst, VERIF_SEED=seed)
            r = subprocess.run(["/verif/check", c, "--tier", a.tier, "--no-evidence"], env=env2, capture_output=True, text=True)
            lines = [l for l in r.stdout.splitlines() if l.startswith(("VIOLATION", "  mechanism", "INCONCLUSIVE", "KNOWN"))]
            print("CHECK %s seed=%s rc=%d  %s" % (c, seed, r.returncode, "DETECTED" if r.returncode == 1 else "missed"))
            for l in lines[:3]:
                print("   " + l[:230])
            if r.returncode not in (0, 1):
                print(r.stdout[-500:], r.stderr[-500:])
finally:
    shutil.rmtree(d, ignore_errors=True)
