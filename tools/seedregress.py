#!/usr/bin/env python3
"""Run every kept seeded change against the first check listed in its meta.json (detected_by)
and report the ones that are not detected.  usage: seedregress.py [-j N] [ids...]"""
import glob, json, os, subprocess, sys
from concurrent.futures import ThreadPoolExecutor
args = sys.argv[1:]
j = 6
if args[:1] == ["-j"]:
    j = int(args[1]); args = args[2:]
dirs = sorted(glob.glob("/verif/seeded/*/"))
if args:
    dirs = [d for d in dirs if os.path.basename(d.rstrip("/")) in args or os.path.basename(d.rstrip("/")).split("-")[0] in args]
def one(d):
    sid = os.path.basename(d.rstrip("/"))
    m = json.load(open(d + "meta.json"))
    chk = m["detected_by"][0]
    r = subprocess.run(["python3", "/verif/tools/seedtest.py", d + "patch.diff", d + "demo.py", "--check", chk, "--skip-confirm"],
                       capture_output=True, text=True)
    ok = "DETECTED" in r.stdout
    return sid, chk, ok, (r.stdout.strip().splitlines() or [""])[0][:120]
with ThreadPoolExecutor(max_workers=j) as ex:
    res = list(ex.map(one, dirs))
bad = [r for r in res if not r[2]]
print("%d seeded changes, %d detected, %d NOT detected" % (len(res), len(res) - len(bad), len(bad)))
for sid, chk, ok, line in bad:
    print("  MISSED %s by %s: %s" % (sid, chk, line))
