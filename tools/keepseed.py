#!/usr/bin/env python3
"""keepseed.py PROP N DETECTED_BY "needs..."  -- copy /tmp/out-PROP/{patchN.diff,demoN.py,notesN.md} to /verif/seeded/PROP-N/"""
import json, os, shutil, sys
prop, n, detected_by, needs = sys.argv[1:5]
extra = sys.argv[5] if len(sys.argv) > 5 else ""
src = "/tmp/out-%s" % prop
dst = "/verif/seeded/%s-%s" % (prop, n)
os.makedirs(dst, exist_ok=True)
shutil.copy(os.path.join(src, "patch%s.diff" % n), os.path.join(dst, "patch.diff"))
shutil.copy(os.path.join(src, "demo%s.py" % n), os.path.join(dst, "demo.py"))
if os.path.exists(os.path.join(src, "notes%s.md" % n)):
    shutil.copy(os.path.join(src, "notes%s.md" % n), os.path.join(dst, "notes.md"))
meta = {
    "breaks_property": prop,
    "origin": "written by a fresh sub-agent that saw only the property text and its own scratch worktree of /repo (nothing from /verif)",
    "needs_to_manifest": needs,
    "confirmed_by": "tools/seedtest.py on a scratch copy of /repo: demo passes on the clean copy, fails with the patch; the "
                    "repository's test-suite still passes with the patch (119 passed)",
    "detected_by": detected_by.split(","),
    "how_to_run": "python3 tools/seedtest.py seeded/%s-%s/patch.diff seeded/%s-%s/demo.py --check %s" % (prop, n, prop, n, detected_by),
    "remarks": extra,
}
json.dump(meta, open(os.path.join(dst, "meta.json"), "w"), indent=1)
print("kept", dst)
