#!/usr/bin/env python3
"""keepseedN.py ROUND PROP N DETECTED_BY NEEDS [REMARKS]"""
import json, os, shutil, sys
rnd, prop, n, detected_by, needs = sys.argv[1:6]
extra = sys.argv[6] if len(sys.argv) > 6 else ""
src = "/tmp/out%s-%s" % (rnd, prop)
existing = [d for d in os.listdir("/verif/seeded") if d.startswith(prop + "-")]
sid = "%s-%d" % (prop, max([int(d.split("-")[1]) for d in existing] + [0]) + 1)
dst = "/verif/seeded/%s" % sid
os.makedirs(dst)
shutil.copy(os.path.join(src, "patch%s.diff" % n), os.path.join(dst, "patch.diff"))
shutil.copy(os.path.join(src, "demo%s.py" % n), os.path.join(dst, "demo.py"))
if os.path.exists(os.path.join(src, "notes%s.md" % n)):
    shutil.copy(os.path.join(src, "notes%s.md" % n), os.path.join(dst, "notes.md"))
meta = {"breaks_property": prop,
        "origin": "round %s: fresh sub-agent that saw only the property text, a list of the mechanisms already tried (to avoid repeats) and its own scratch worktree of /repo" % rnd,
        "needs_to_manifest": needs,
        "confirmed_by": "tools/seedtest.py on a scratch copy of /repo: demo passes on the clean copy, fails with the patch; test-suite still passes (119 passed)",
        "detected_by": detected_by.split(","),
        "how_to_run": "python3 tools/seedtest.py seeded/%s/patch.diff seeded/%s/demo.py --check %s" % (sid, sid, detected_by),
        "remarks": extra}
json.dump(meta, open(os.path.join(dst, "meta.json"), "w"), indent=1)
print("kept", dst)
