#!/usr/bin/env python3
"""roundtest.py N ID [ID...]: run tools/seedtest.py for /tmp/outN-ID/patch{1,2}.diff against check ID; print a summary."""
import subprocess, sys, os
N = sys.argv[1]
for pid in sys.argv[2:]:
    for n in (1, 2):
        patch = "/tmp/out%s-%s/patch%d.diff" % (N, pid, n)
        demo = "/tmp/out%s-%s/demo%d.py" % (N, pid, n)
        if not os.path.exists(patch):
            print("## %s-%d: no patch" % (pid, n)); continue
        r = subprocess.run(["python3", "/verif/tools/seedtest.py", patch, demo, "--check", pid], capture_output=True, text=True)
        lines = [l for l in r.stdout.splitlines() if l.startswith(("DEMO", "TESTS", "CHECK", "PATCH"))]
        mech = [l.strip()[:150] for l in r.stdout.splitlines() if "mechanism=" in l][:1]
        print("## %s-%d: %s %s" % (pid, n, " | ".join(l[:70] for l in lines), mech[0] if mech else ""))
        sys.stdout.flush()
