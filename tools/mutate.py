#!/usr/bin/env python3
"""Apply a one-off textual mutant to a scratch copy of the repo, optionally run the
repo's test-suite on it, run checks against it (VF_REPO), delete the copy.

usage: mutate.py [--tests] [--keep] --check C03[,C04] FILE OLD NEW [FILE OLD NEW ...]
"""
import argparse
import os
import shutil
import subprocess
import sys
import tempfile

ap = argparse.ArgumentParser()
ap.add_argument("--tests", action="store_true")
ap.add_argument("--check", required=True)
ap.add_argument("--tier", default="quick")
ap.add_argument("--seed", default="0")
ap.add_argument("edits", nargs="+")
a = ap.parse_args()
assert len(a.edits) % 3 == 0
d = tempfile.mkdtemp(prefix="mut-", dir="/var/tmp")
try:
    dst = os.path.join(d, "repo")
    shutil.copytree("/repo", dst, ignore=shutil.ignore_patterns(".git", "__pycache__", ".cache*"))
    for i in range(0, len(a.edits), 3):
        f, old, new = a.edits[i:i + 3]
        old = old.encode().decode("unicode_escape")
        new = new.encode().decode("unicode_escape")
        p = os.path.join(dst, f)
        s = open(p).read()
        if s.count(old) != 1:
            print("MUTATE: %r occurs %d times in %s" % (old, s.count(old), f))
            sys.exit(3)
        open(p, "w").write(s.replace(old, new))
    if a.tests:
        r = subprocess.run(["/venv/bin/python", "-m", "pytest", "-q", "-p", "no:cacheprovider", "-x", "--timeout=600",
                            "--deselect", "tests/handlers/test_zip.py::TestVFSZip::test_save_cache"],
                           cwd=dst, capture_output=True, text=True)
        print("TESTS:", r.stdout.strip().splitlines()[-1] if r.stdout.strip() else r.stderr[-300:])
    env = dict(os.environ, VF_REPO=dst, VERIF_SEED=a.seed)
    for c in a.check.split(","):
        r = subprocess.run(["/verif/check", c, "--tier", a.tier, "--no-evidence"], env=env, capture_output=True, text=True)
        lines = [l for l in r.stdout.splitlines() if l.startswith(("VIOLATION", "  mechanism", c + " ", "INCONCLUSIVE", "KNOWN"))]
        print("CHECK %s rc=%d" % (c, r.returncode))
        for l in lines[:8]:
            print("   " + l[:260])
        if r.returncode not in (0, 1):
            print(r.stdout[-800:], r.stderr[-800:])
finally:
    shutil.rmtree(d, ignore_errors=True)
