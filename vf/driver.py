"""In-process driver: the real server classes, real sockets (socketpair), real
handle_error / shutdown_request, with monitors on the log and on escaping exceptions.
"""
from __future__ import annotations

import configparser
import io
import os
import socket
import ssl
import sys
import threading
import time
import typing

from vf import REPO

import pygopherd.server  # noqa: E402
from pygopherd import GopherExceptions, gopherentry, initialization, logger  # noqa: E402
from pygopherd.handlers import HandlerMultiplexer, UMN  # noqa: E402
from pygopherd.handlers import base as handlers_base  # noqa: E402

SHIPPED_CONF = os.path.join(REPO, "conf", "pygopherd.conf")
MIME_TYPES = os.path.join(REPO, "conf", "mime.types")
CERT = os.path.join(REPO, "testdata", "demo.crt")
KEY = os.path.join(REPO, "testdata", "demo.key")

SERVER_NAME = "verif.example"
CLIENT_ADDR = ("10.9.8.7", 4321)

HANDLERS_DEFAULT = None  # the shipped list
# the "full featureset" list of the sample configuration, in its order, plus the ZIP handler
HANDLERS_FULL = (
    "[url.HTMLURLHandler, gophermap.BuckGophermapHandler, "
    "mbox.MaildirFolderHandler, mbox.MaildirMessageHandler, "
    "UMN.UMNDirHandler, tal.TALFileHandler, html.HTMLFileTitleHandler, "
    "mbox.MBoxMessageHandler, mbox.MBoxFolderHandler, "
    "pyg.PYGHandler, scriptexec.ExecHandler, ZIP.ZIPHandler, "
    "file.CompressedFileHandler, file.FileHandler]"
)
# ... and with the type-prefix rewriter where the sample configuration puts it: last
HANDLERS_FULL_REWRITE = HANDLERS_FULL.replace("file.FileHandler]", "file.FileHandler, url.URLTypeRewriter]")
HANDLERS_PLAINDIR = (
    "[url.HTMLURLHandler, gophermap.BuckGophermapHandler, dir.DirHandler, "
    "html.HTMLFileTitleHandler, file.FileHandler]"
)


def which(prog: str) -> typing.Optional[str]:
    import shutil

    for d in ("/usr/bin", "/bin"):
        p = os.path.join(d, prog)
        if os.access(p, os.X_OK):
            return p
    return shutil.which(prog)


def decompressors_option() -> str:
    d = {}
    z = which("zcat")
    if z:
        d["gzip"] = z
    b = which("bzcat")
    if b:
        d["bzip2"] = b
    return repr(d)


def make_config(root: str, handlers: typing.Optional[str] = None,
                overrides: typing.Optional[typing.Dict[typing.Tuple[str, str], str]] = None
                ) -> configparser.ConfigParser:
    """The *shipped* configuration plus the overrides a site operator would make."""
    config = configparser.ConfigParser()
    config.read(SHIPPED_CONF)
    config.set("pygopherd", "root", root)
    config.set("pygopherd", "mimetypes", MIME_TYPES)
    config.set("pygopherd", "servername", SERVER_NAME)
    config.set("pygopherd", "advertisedport", "70")
    config.set("pygopherd", "usechroot", "no")
    config.set("pygopherd", "port", "0")
    config.set("pygopherd", "interface", "127.0.0.1")
    config.set("pygopherd", "servertype", "ThreadingTCPServer")
    config.set("logger", "logmethod", "file")
    config.set("handlers.dir.DirHandler", "cachetime", "0")
    if handlers:
        config.set("handlers.HandlerMultiplexer", "handlers", handlers)
        if "ZIP.ZIPHandler" in handlers:
            config.set("handlers.ZIP.ZIPHandler", "enabled", "true")
        if "CompressedFileHandler" in handlers:
            config.set("handlers.file.CompressedFileHandler", "decompressors",
                       decompressors_option())
    for (sec, opt), val in (overrides or {}).items():
        if not config.has_section(sec):
            config.add_section(sec)
        config.set(sec, opt, val)
    return config


_mime_inited = False
import mimetypes as _mt
_PRISTINE_ENCODINGS = dict(_mt.encodings_map)


def init_process_globals(config: configparser.ConfigParser) -> None:
    """What bin/pygopherd does once per process before serving."""
    global _mime_inited
    import mimetypes
    key = (config.get("pygopherd", "mimetypes"), config.get("pygopherd", "encoding"))
    if _mime_inited != key:
        # a real process starts from the interpreter's own tables: put them back before (re-)initialising
        mimetypes.encodings_map.clear()
        mimetypes.encodings_map.update(_PRISTINE_ENCODINGS)
        saved = logger.__dict__.get("log")
        logger.log = lambda m: None
        initialization.init_mimetypes(config)
        if saved is not None:
            logger.log = saved
        _mime_inited = key


def reset_lazies() -> None:
    """A real server has one configuration per process; a check that switches
    configuration inside one process must forget the lazily cached tables."""
    HandlerMultiplexer.handlers = None
    HandlerMultiplexer.rootpath = None
    handlers_base.rootpath = None
    gopherentry.mapping = None
    gopherentry.eaexts = None
    UMN.extstrip = None


_tls_protocols = threading.local()
_recorder_installed = False


def _install_protocol_recorder() -> None:
    """Record, at the boundary the connection handler uses, which protocol class
    getProtocol returned (per thread)."""
    global _recorder_installed
    if _recorder_installed:
        return
    from pygopherd.protocols import ProtocolMultiplexer

    orig = ProtocolMultiplexer.getProtocol

    def getProtocol(*a, **kw):
        lst = getattr(_tls_protocols, "seen", None)
        if lst is None:
            lst = _tls_protocols.seen = []
        try:
            p = orig(*a, **kw)
        except BaseException:
            lst.append("<raised>")
            raise
        lst.append(type(p).__name__ if p is not None else None)
        return p

    getProtocol.__wrapped__ = orig
    ProtocolMultiplexer.getProtocol = getProtocol
    _recorder_installed = True


class MockTLSSocket(ssl.SSLSocket):
    """A real, working socket that *is an* ssl.SSLSocket instance (check_tls() is an
    isinstance test).  No encryption: _sslobj is None, so every SSLSocket method falls
    through to the plain socket implementation."""

    _sslobj = None
    _closed = False
    _connected = True
    server_side = True
    server_hostname = None
    _session = None

    def __init__(self, sock: socket.socket):  # noqa
        socket.socket.__init__(self, sock.family, sock.type, sock.proto, fileno=sock.detach())

    def __del__(self):
        pass


class Watchdog:
    """M-WATCH for the in-process driver: the connection handler runs in the calling
    thread, so a handler that never returns would hang the check.  A generous deadline
    (60 s for a request that normally takes milliseconds); on expiry the reporter
    registered by the check is called with the stack of the stuck thread and the process
    exits -- a hang is a witness, not a silent time-out."""

    def __init__(self):
        self.deadline: typing.Optional[float] = None
        self.desc: typing.Any = None
        self.thread_id: typing.Optional[int] = None
        self.reporter: typing.Optional[typing.Callable[[typing.Any, str], None]] = None
        self.started = False
        self.limit = float(os.environ.get("VF_HANG_SECONDS", "60"))

    def arm(self, desc: typing.Any) -> None:
        if not self.started:
            self.started = True
            threading.Thread(target=self._run, daemon=True).start()
        self.desc = desc
        self.thread_id = threading.get_ident()
        self.deadline = time.monotonic() + self.limit

    def disarm(self) -> None:
        self.deadline = None

    def _run(self) -> None:
        import traceback as _tb

        while True:
            time.sleep(1.0)
            d = self.deadline
            if d is not None and time.monotonic() > d:
                frame = sys._current_frames().get(self.thread_id)
                stack = "".join(_tb.format_stack(frame)) if frame else "?"
                try:
                    if self.reporter:
                        self.reporter(self.desc, stack)
                finally:
                    sys.stdout.flush()
                    os._exit(1)


WATCHDOG = Watchdog()


class Response:
    __slots__ = ("data", "log", "escaped", "stderr", "elapsed", "hung", "tls_error", "protocol")

    def __init__(self):
        self.protocol: typing.Optional[str] = None
        self.data = b""
        self.log: typing.List[str] = []
        self.escaped: typing.List[typing.Tuple[str, str]] = []
        self.stderr = ""
        self.elapsed = 0.0
        self.hung = False
        self.tls_error: typing.Optional[str] = None

    def exceptions(self) -> typing.List[str]:
        """Classes named in 'EXCEPTION <class>' log records."""
        out = []
        for ln in self.log:
            i = ln.find("] EXCEPTION ")
            if i >= 0:
                out.append(ln[i + 12:].split(":", 1)[0])
        return out

    def protocol_handler(self) -> typing.Optional[typing.Tuple[str, str]]:
        """(protocol class, handler class) from the request log line, if any."""
        for ln in self.log:
            if " EXCEPTION " in ln:
                continue
            i, j = ln.find("["), ln.find("]: ")
            if 0 <= i < j and "/" in ln[i:j]:
                a, b = ln[i + 1:j].split("/", 1)
                return a, b
        return None


def _syslog_standin(prio, msg):
    """What syslog.syslog(priority, message) accepts: an int and a str that is encodable as UTF-8 and holds no NUL
    (CPython raises UnicodeEncodeError resp. ValueError('embedded null character') otherwise)."""
    if not isinstance(prio, int) or not isinstance(msg, str):
        raise TypeError("syslog.syslog(int, str)")
    msg.encode("utf-8")
    if "\0" in msg:
        raise ValueError("embedded null character")


class _SinkBuffer:
    @staticmethod
    def write(data: bytes) -> int:
        if not isinstance(data, (bytes, bytearray, memoryview)):
            raise TypeError("a bytes-like object is required, not %r" % type(data).__name__)
        return len(data)

    @staticmethod
    def flush() -> None:
        pass


class _SinkStdout:
    buffer = _SinkBuffer


class _SinkSys:
    """What pygopherd.logger sees as `sys`: a stdout whose bytes go nowhere."""
    stdout = _SinkStdout
    stderr = sys.stderr


class Site:
    """One configuration + one real server object (never listening for clients:
    connections are handed to process_request_thread directly)."""

    def __init__(self, root: str, handlers: typing.Optional[str] = None,
                 overrides: typing.Optional[dict] = None, tls_context: bool = False):
        self.root = root
        self.config = make_config(root, handlers, overrides)
        init_process_globals(self.config)
        reset_lazies()
        GopherExceptions.init(self.config.getboolean("pygopherd", "tracebacks"))
        context = None
        if tls_context:
            context = ssl.create_default_context(ssl.Purpose.CLIENT_AUTH)
            context.load_cert_chain(CERT, KEY)
        self._log: typing.List[str] = []
        self._loglock = threading.Lock()
        self._install_logger()
        self.server = pygopherd.server.ThreadingTCPServer(
            self.config, ("127.0.0.1", 0), pygopherd.server.GopherRequestHandler,
            context=context)
        # the advertised identity must not depend on the ephemeral port
        self.server.server_name = SERVER_NAME
        self.server.server_port = 70
        self._escaped: typing.List[typing.Tuple[str, str]] = []
        orig = self.server.handle_error

        def handle_error(request, client_address):
            et, ev, tb = sys.exc_info()
            import traceback as _tb

            self._escaped.append((et.__name__ if et else "?",
                                  "".join(_tb.format_exception(et, ev, tb))[-1500:]))

        self.server.handle_error = handle_error
        self._orig_handle_error = orig
        self._protocols: typing.List[typing.Optional[str]] = []
        _install_protocol_recorder()

    def _install_logger(self) -> None:
        """Every log line is recorded, and then goes through the repository's own log function for
        the configured method (its formatting/encoding code runs as in the real server); only the
        final sink is replaced: log_file writes to a discarding stdout, log_syslog to a stand-in
        for syslog.syslog that, like it, accepts only text encodable as UTF-8."""
        method = self.config.get("logger", "logmethod")
        logger.sys = _SinkSys
        logger.syslogfunc = _syslog_standin
        logger.priority = 6
        real = {"file": logger.log_file, "syslog": logger.log_syslog}.get(method, logger.log_none)

        def rec(message: str) -> None:
            with self._loglock:
                self._log.append(message)
            real(message)

        logger.log = rec

    def activate(self) -> None:
        """Make this site the process's current one (after another Site was used)."""
        reset_lazies()
        self._install_logger()
        GopherExceptions.init(self.config.getboolean("pygopherd", "tracebacks"))

    def close(self) -> None:
        try:
            self.server.server_close()
        except Exception:
            pass

    # ------------------------------------------------------------------------------
    def request(self, data: bytes, tls: typing.Union[bool, str] = False,
                addr: typing.Tuple[str, int] = CLIENT_ADDR, timeout: float = 30.0,
                server_sock_wrapper: typing.Optional[typing.Callable] = None,
                half_close: bool = True, segments: typing.Optional[typing.Sequence[int]] = None,
                segment_gap: float = 0.008, initial_delay: float = 0.0) -> Response:
        """Send `data` as one connection and collect everything the server writes.

        segments: byte offsets at which the client pauses (segment_gap seconds): the request reaches
        the server in several pieces, as TCP is free to deliver it.

        tls: False (plaintext), True/'mock' (the server sees an ssl.SSLSocket instance
        on a cleartext socketpair) or 'real' (genuine TLS handshake; the Site must have
        been built with tls_context=True)."""
        resp = Response()
        with self._loglock:
            self._log.clear()
        self._escaped.clear()
        _tls_protocols.seen = []
        s_srv, s_cli = socket.socketpair()
        s_cli.settimeout(timeout)
        chunks: typing.List[bytes] = []

        def client() -> None:
            c = s_cli
            try:
                if tls == "real":
                    ctx = ssl.SSLContext(ssl.PROTOCOL_TLS_CLIENT)
                    ctx.check_hostname = False
                    ctx.verify_mode = ssl.CERT_NONE
                    try:
                        c = ctx.wrap_socket(s_cli, server_hostname="localhost")
                    except (ssl.SSLError, OSError) as e:
                        resp.tls_error = "%s: %s" % (type(e).__name__, e)
                        return
                try:
                    if initial_delay:
                        time.sleep(initial_delay)     # a client that connects and says nothing for a while
                    if segments:
                        cuts = sorted({k for k in segments if 0 < k < len(data)})
                        last = 0
                        for k in cuts + [len(data)]:
                            c.sendall(data[last:k])
                            last = k
                            if k < len(data):
                                time.sleep(segment_gap)
                    else:
                        c.sendall(data)
                    if half_close and tls != "real":
                        c.shutdown(socket.SHUT_WR)
                except OSError:
                    pass
                while True:
                    try:
                        b = c.recv(65536)
                    except socket.timeout:
                        resp.hung = True
                        break
                    except ssl.SSLError as e:
                        resp.tls_error = "%s: %s" % (type(e).__name__, e)
                        break
                    except OSError:
                        break
                    if not b:
                        break
                    chunks.append(b)
            finally:
                try:
                    c.close()
                except OSError:
                    pass

        t = threading.Thread(target=client, daemon=True)
        srv_sock: typing.Any = s_srv
        if tls in (True, "mock"):
            srv_sock = MockTLSSocket(s_srv)
        if server_sock_wrapper is not None:
            srv_sock = server_sock_wrapper(srv_sock)
        old_stderr = sys.stderr
        cap = io.StringIO()
        sys.stderr = cap
        t0 = time.monotonic()
        t.start()
        WATCHDOG.arm({"request": data[:300], "tls": str(tls), "root": self.root})
        try:
            self.server.process_request_thread(srv_sock, addr)
        finally:
            WATCHDOG.disarm()
            sys.stderr = old_stderr
        t.join(timeout + 5)
        if t.is_alive():
            resp.hung = True
        resp.elapsed = time.monotonic() - t0
        resp.data = b"".join(chunks)
        with self._loglock:
            resp.log = list(self._log)
        resp.escaped = list(self._escaped)
        resp.stderr = cap.getvalue()
        seen = getattr(_tls_protocols, "seen", [])
        resp.protocol = seen[-1] if seen else None
        return resp


def concurrent_requests(site: "Site", jobs: typing.List[typing.Tuple[bytes, typing.Any]], nthreads: int = 8,
                        timeout: float = 30.0, aligned_start: bool = False) -> typing.List[bytes]:
    """Run the jobs (request bytes, tls) on `nthreads` threads at once, each through the
    real process_request_thread on its own socketpair.  Returns the reply bytes in job
    order.  Escaping exceptions accumulate in site._escaped, log lines in site._log
    (neither is cleared here)."""
    results: typing.List[typing.Optional[bytes]] = [None] * len(jobs)
    nxt = [0]
    lock = threading.Lock()
    nthreads = max(1, min(nthreads, len(jobs)))
    gate = threading.Barrier(nthreads) if aligned_start else None

    def one(i: int) -> None:
        data, tls = jobs[i]
        s_srv, s_cli = socket.socketpair()
        s_cli.settimeout(timeout)
        chunks: typing.List[bytes] = []

        def client() -> None:
            try:
                s_cli.sendall(data)
                s_cli.shutdown(socket.SHUT_WR)
                while True:
                    b = s_cli.recv(65536)
                    if not b:
                        break
                    chunks.append(b)
            except OSError:
                pass
            finally:
                s_cli.close()

        t = threading.Thread(target=client, daemon=True)
        t.start()
        srv: typing.Any = MockTLSSocket(s_srv) if tls in (True, "mock") else s_srv
        if gate is not None and i < nthreads:
            try:
                gate.wait(10)        # the first request of every worker enters the server together
            except threading.BrokenBarrierError:
                pass
        site.server.process_request_thread(srv, CLIENT_ADDR)
        t.join(timeout + 5)
        results[i] = b"".join(chunks)

    def worker() -> None:
        while True:
            with lock:
                i = nxt[0]
                nxt[0] += 1
            if i >= len(jobs):
                return
            one(i)

    threads = [threading.Thread(target=worker, daemon=True) for _ in range(nthreads)]
    for t in threads:
        t.start()
    for t in threads:
        t.join(timeout * 4)
    return [r if r is not None else b"<no reply>" for r in results]


def clean_server_files(root: str) -> int:
    """Remove every file the server writes into the tree it serves."""
    n = 0
    for dp, dn, fn in os.walk(root):
        for f in fn:
            if f.startswith(".cache.pygopherd"):
                try:
                    os.unlink(os.path.join(dp, f))
                    n += 1
                except OSError:
                    pass
    return n
