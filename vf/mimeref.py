"""Reference for 'the MIME type the configured tables assign to a name', read
directly from the configured mime.types file by an independent 20-line parser.
Only extensions that the configured file itself defines, or that no table defines,
are used by the generators, so the answer does not depend on the host's /etc."""
from __future__ import annotations

import os
import typing

from vf import REPO

CONF_MIME = os.path.join(REPO, "conf", "mime.types")
DEFAULT = "text/plain"            # [GopherEntry] defaultmimetype in the shipped config
UNKNOWN_EXTS = [".qqq", ".vfx", ""]


def parse_mime_types(path: str = CONF_MIME) -> typing.Dict[str, str]:
    table: typing.Dict[str, str] = {}
    with open(path, encoding="latin-1") as fp:
        for line in fp:
            line = line.split("#", 1)[0].split()
            if len(line) < 2:
                continue
            for ext in line[1:]:
                table["." + ext] = line[0]
    return table


_table: typing.Optional[typing.Dict[str, str]] = None


def table() -> typing.Dict[str, str]:
    global _table
    if _table is None:
        _table = parse_mime_types()
    return _table


def mime_for_ext(ext: str) -> str:
    """ext includes the dot ('' = none). Case-sensitive first, then lower-case, as the
    standard tables are consulted."""
    t = table()
    if ext in t:
        return t[ext]
    if ext.lower() in t:
        return t[ext.lower()]
    return DEFAULT


KNOWN_EXTS = [".txt", ".html", ".gif", ".jpg", ".png", ".pdf", ".mp3", ".css", ".ps", ".hqx", ".c", ".gmi"]
