"""Independent response parsers, written from RFC 1436, the Gopher+ spec, RFC 1945,
the Gemini and Spartan specifications -- not from the code under test.  Each returns
a small dict, or raises Malformed with a reason."""
from __future__ import annotations

import html
import html.parser
import re
import typing
import urllib.parse


class Malformed(Exception):
    pass


# ---------------------------------------------------------------- Gopher (RFC 1436)
def parse_gopher_line(line: bytes) -> dict:
    """One menu line without its CRLF."""
    if len(line) < 1:
        raise Malformed("empty menu line")
    parts = line.split(b"\t")
    if len(parts) not in (4, 5):
        raise Malformed("menu line has %d tab fields: %r" % (len(parts), line[:120]))
    if len(parts) == 5 and parts[4] not in (b"+", b"?"):
        raise Malformed("5th field is not + or ?: %r" % line[:120])
    if not parts[0]:
        raise Malformed("no type character")
    try:
        port = int(parts[3])
    except ValueError:
        raise Malformed("port is not a number: %r" % line[:120])
    return {"type": chr(parts[0][0]), "name": parts[0][1:], "selector": parts[1],
            "host": parts[2], "port": port, "plus": len(parts) == 5}


def parse_gopher_menu(data: bytes, allow_empty: bool = True) -> typing.List[dict]:
    if data == b"":
        if allow_empty:
            return []
        raise Malformed("empty response")
    if not data.endswith(b"\r\n"):
        raise Malformed("menu does not end with CRLF: ...%r" % data[-60:])
    out = []
    for ln in data[:-2].split(b"\r\n"):
        if ln == b".":
            continue
        if b"\n" in ln:
            raise Malformed("bare LF inside a menu line: %r" % ln[:120])
        out.append(parse_gopher_line(ln))
    return out


def parse_gopher_error(data: bytes) -> dict:
    """Exactly one type-3 line."""
    if not data.endswith(b"\r\n"):
        raise Malformed("error reply does not end with CRLF")
    body = data[:-2]
    if b"\r\n" in body:
        raise Malformed("more than one line in an error reply: %r" % data[:200])
    d = parse_gopher_line(body)
    if d["type"] != "3":
        raise Malformed("error line has type %r" % d["type"])
    return d


# ---------------------------------------------------------------------- Gopher+
def parse_gopherplus(data: bytes) -> dict:
    """Status line `+n` / `--n` (n = -1, -2 or a length) followed by the payload."""
    i = data.find(b"\r\n")
    if i < 0:
        raise Malformed("no status line")
    st = data[:i]
    body = data[i + 2:]
    m = re.fullmatch(rb"([+-])(-?\d+)", st)
    if not m:
        raise Malformed("bad Gopher+ status line %r" % st[:80])
    ok = m.group(1) == b"+"
    n = int(m.group(2))
    if n < -2:
        raise Malformed("length %d" % n)
    if n >= 0 and len(body) != n:
        raise Malformed("length header %d but %d body bytes" % (n, len(body)))
    res = {"ok": ok, "length": n, "body": body}
    if not ok:
        # error: "<code> <admin>CRLF<message>CRLF"
        j = body.find(b"\r\n")
        if j < 0:
            raise Malformed("Gopher+ error without admin line")
        first = body[:j]
        if not re.match(rb"\d+ ", first):
            raise Malformed("Gopher+ error line lacks an error code: %r" % first[:80])
        res["errcode"] = int(first.split(b" ", 1)[0])
        res["message"] = body[j + 2:]
        if not body.endswith(b"\r\n"):
            raise Malformed("Gopher+ error message not CRLF terminated")
    return res


def parse_gopherplus_items(body: bytes) -> typing.List[typing.List[typing.Tuple[str, typing.List[bytes]]]]:
    """Attribute listing -> list of items; an item is a list of (BLOCKNAME, lines).
    The first block of every item is +INFO with the menu line on the header line.
    Lines of a block start with one space; a line starting with '+' starts a block."""
    if body == b"":
        return []
    if not body.endswith(b"\r\n"):
        raise Malformed("attribute listing does not end with CRLF")
    items: typing.List[typing.List[typing.Tuple[str, typing.List[bytes]]]] = []
    cur = None
    for ln in body[:-2].split(b"\r\n"):
        if ln.startswith(b"+"):
            m = re.match(rb"\+([A-Za-z0-9_-]+):( ?)(.*)$", ln, re.S)
            if not m:
                raise Malformed("bad block header %r" % ln[:100])
            name = m.group(1).decode()
            rest = m.group(3)
            if name == "INFO":
                cur = []
                items.append(cur)
                cur.append((name, [rest]))
            else:
                if cur is None:
                    raise Malformed("block %s before any +INFO" % name)
                cur.append((name, [rest] if rest else []))
        elif ln.startswith(b" "):
            if cur is None or not cur:
                raise Malformed("content line outside any block")
            cur[-1][1].append(ln[1:])
        else:
            raise Malformed("line is neither block header nor content: %r" % ln[:100])
    return items


# --------------------------------------------------------------------------- HTTP
def parse_http(data: bytes) -> dict:
    i = data.find(b"\r\n\r\n")
    if i < 0:
        raise Malformed("no end of HTTP header block")
    head = data[:i].split(b"\r\n")
    body = data[i + 4:]
    m = re.fullmatch(rb"HTTP/1\.[01] (\d{3}) ([^\r\n]*)", head[0])
    if not m:
        raise Malformed("bad status line %r" % head[0][:100])
    headers = []
    for h in head[1:]:
        if b"\n" in h or b"\r" in h:
            raise Malformed("bare CR/LF in header %r" % h[:100])
        mm = re.fullmatch(rb"([!#$%&'*+.^_`|~0-9A-Za-z-]+):[ \t]*(.*)", h)
        if not mm:
            raise Malformed("bad header line %r" % h[:100])
        headers.append((mm.group(1).decode().lower(), mm.group(2)))
    return {"status": int(m.group(1)), "reason": m.group(2), "headers": headers, "body": body}


# ------------------------------------------------------------------ Gemini / Spartan
def parse_gemini(data: bytes) -> dict:
    i = data.find(b"\r\n")
    if i < 0:
        raise Malformed("no CRLF after the Gemini status line")
    st = data[:i]
    m = re.fullmatch(rb"(\d\d) ([^\r\n]*)", st)
    if not m:
        raise Malformed("bad Gemini status line %r" % st[:120])
    code = int(m.group(1))
    body = data[i + 2:]
    if not 20 <= code <= 29 and body:
        raise Malformed("status %d followed by %d body bytes: %r" % (code, len(body), body[:80]))
    return {"status": code, "meta": m.group(2), "body": body}


def parse_spartan(data: bytes) -> dict:
    i = data.find(b"\r\n")
    if i < 0:
        raise Malformed("no CRLF after the Spartan status line")
    st = data[:i]
    m = re.fullmatch(rb"([2345]) ([^\r\n]*)", st)
    if not m:
        raise Malformed("bad Spartan status line %r" % st[:120])
    code = int(m.group(1))
    body = data[i + 2:]
    if code != 2 and body:
        raise Malformed("status %d followed by %d body bytes: %r" % (code, len(body), body[:80]))
    return {"status": code, "meta": m.group(2), "body": body}


def parse_gemtext_links(body: bytes, prompt_prefix: bytes = b"=:") -> typing.List[dict]:
    """Lines of a text/gemini menu: link lines and text lines, in order."""
    out = []
    for ln in body.split(b"\n"):
        if ln.startswith(b"=>") or ln.startswith(b"=:"):
            kind = "link" if ln.startswith(b"=>") else "prompt"
            rest = ln[2:].lstrip(b" \t")
            parts = re.split(rb"[ \t]+", rest, maxsplit=1)
            url = parts[0]
            label = parts[1] if len(parts) > 1 else b""
            out.append({"kind": kind, "url": url, "label": label})
        else:
            out.append({"kind": "text", "text": ln})
    return out


# ------------------------------------------------------------------ HTML / WML
VOID = {"area", "base", "br", "col", "embed", "hr", "img", "input", "link", "meta",
        "param", "source", "track", "wbr", "postfield"}


class _Skel(html.parser.HTMLParser):
    def __init__(self):
        super().__init__(convert_charrefs=True)
        self.events: typing.List[tuple] = []

    def handle_starttag(self, tag, attrs):
        self.events.append(("start", tag, tuple(attrs)))

    def handle_startendtag(self, tag, attrs):
        self.events.append(("start", tag, tuple(attrs)))
        self.events.append(("end", tag))

    def handle_endtag(self, tag):
        self.events.append(("end", tag))

    def handle_data(self, data):
        if self.events and self.events[-1][0] == "text":
            self.events[-1] = ("text", self.events[-1][1] + data)
        else:
            self.events.append(("text", data))

    def handle_comment(self, data):
        self.events.append(("comment", data))

    def handle_decl(self, decl):
        self.events.append(("decl", decl))

    def handle_pi(self, data):
        self.events.append(("pi", data))


def html_events(text: str) -> typing.List[tuple]:
    p = _Skel()
    p.feed(text)
    p.close()
    return p.events


def html_skeleton(text: str) -> typing.List[tuple]:
    """Element/attribute-name structure only: what inert and hostile data must share."""
    out = []
    for ev in html_events(text):
        if ev[0] == "start":
            out.append(("start", ev[1], tuple(sorted(a for a, _ in ev[2]))))
        elif ev[0] == "end":
            out.append(ev)
        elif ev[0] in ("comment", "decl", "pi"):
            out.append((ev[0],))
    return out


def html_links(text: str) -> typing.List[dict]:
    """<a href> (and <form action>, WML <go href>) in document order with their text."""
    evs = html_events(text)
    out = []
    cur = None
    for ev in evs:
        if ev[0] == "start" and ev[1] == "a":
            href = dict(ev[2]).get("href")
            cur = {"kind": "a", "href": href, "text": ""}
            out.append(cur)
        elif ev[0] == "end" and ev[1] == "a":
            cur = None
        elif ev[0] == "start" and ev[1] == "form":
            out.append({"kind": "form", "href": dict(ev[2]).get("action"), "text": ""})
        elif ev[0] == "start" and ev[1] == "go":
            out.append({"kind": "go", "href": dict(ev[2]).get("href"), "text": ""})
        elif ev[0] == "text" and cur is not None:
            cur["text"] += ev[1]
    return out


def unquote_bytes(s: typing.Union[str, bytes]) -> bytes:
    if isinstance(s, str):
        s = s.encode("utf-8", "surrogateescape")
    return urllib.parse.unquote_to_bytes(s)
