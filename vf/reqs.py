"""Rendering a (selector, query) pair in each protocol's own request syntax, and
hostile mutators."""
from __future__ import annotations

import random
import typing
import urllib.parse

HOST = "verif.example"

# view name -> (family, tls)
VIEWS: typing.Dict[str, typing.Tuple[str, bool]] = {
    "gopher": ("gopher", False),
    "gophers": ("gopher", True),
    "gopherp+": ("gopherp", False),   # document / plain menu with Gopher+ status line
    "gopherp$": ("gopherp", False),   # directory attribute listing
    "gopherp!": ("gopherp", False),   # item attribute listing
    "gopherps+": ("gopherp", True),
    "gopherps$": ("gopherp", True),
    "http": ("http", False),
    "https": ("http", True),
    "httphead": ("http", False),
    "wap": ("wap", False),
    "waphead": ("wap", False),
    "wapauto": ("wap", False),       # no /wap prefix: detected from the Accept / X-Wap-Profile headers
    "gemini": ("gemini", True),
    "spartan": ("spartan", False),
}

LISTING_VIEWS = ["gopher", "gophers", "gopherp+", "gopherp$", "http", "https", "wap", "gemini",
                 "spartan"]
DOC_VIEWS = ["gopher", "gophers", "gopherp+", "gopherps+", "http", "https", "httphead", "wap", "waphead",
             "gemini", "spartan"]

# protocol classes that may legitimately answer each view (shipped protocol list)
EXPECTED_PROTOCOL = {
    "gopher": "GopherProtocol", "gophers": "SecureGopherProtocol",
    "gopherp+": "GopherPlusProtocol", "gopherp$": "GopherPlusProtocol",
    "gopherp!": "GopherPlusProtocol", "gopherps+": "SecureGopherPlusProtocol",
    "gopherps$": "SecureGopherPlusProtocol", "http": "HTTPProtocol", "https": "HTTPSProtocol",
    "httphead": "HTTPProtocol", "wap": "WAPProtocol", "waphead": "WAPProtocol", "wapauto": "WAPProtocol", "gemini": "GeminiProtocol",
    "spartan": "SpartanProtocol",
}


MINIMAL_SAFE = "/!$&'()*+,;=:@"


def quote(sel: bytes, safe: str = "/") -> str:
    return urllib.parse.quote(sel, safe=safe)


# where the WAP view of the site lives (the server's waptop option); checks that configure another one set this
# for the duration of their requests
WAPTOP = "/wap"


def render(view: str, selector: bytes, query: typing.Optional[bytes] = None,
           prequoted: bool = False, minimal_query: bool = False, minimal_path: bool = False) -> typing.Tuple[bytes, bool]:
    """-> (request bytes, tls).  `selector` is the raw selector bytes (starting with
    '/'); URL protocols percent-encode it unless prequoted."""
    family, tls = VIEWS[view]
    if family == "gopher":
        req = selector
        if query is not None:
            req += b"\t" + query
        return req + b"\r\n", tls
    if family == "gopherp":
        form = view[-1].encode()
        req = selector
        if query is not None:
            req += b"\t" + query
        return req + b"\t" + form + b"\r\n", tls
    # minimal_path: a client that percent-encodes only what RFC 3986 forbids in a path segment (the
    # sub-delims ! $ & ' ( ) * + , ; = and : @ travel as they are)
    path = selector.decode("latin-1") if prequoted else quote(selector, safe=MINIMAL_SAFE if minimal_path else "/")
    if family in ("http", "wap"):
        method = "HEAD" if view in ("httphead", "waphead") else "GET"
        if family == "wap" and view != "wapauto":
            path = WAPTOP.rstrip("/") + path       # what a visitor types: the waptop URL, then the path
        if query is not None:
            path += "?searchrequest=" + urllib.parse.quote_plus(query)
        extra = "Accept: text/html, text/vnd.wap.wml\r\nX-Wap-Profile: \"http://wap.example/p\"\r\n" if view == "wapauto" else ""
        return ("%s %s HTTP/1.0\r\nHost: %s\r\n%s\r\n" % (method, path, HOST, extra)).encode("latin-1"), tls
    if family == "gemini":
        url = "gemini://%s%s" % (HOST, path)
        if query is not None:
            # minimal_query: a client that escapes only what RFC 3986 forbids in a query (sub-delims such as
            # '+', '&', '=' and ':' '@' '/' '?' travel as they are)
            url += "?" + urllib.parse.quote(query, safe="!$&'()*+,;=:@/?" if minimal_query else "/")
        return url.encode("latin-1") + b"\r\n", True
    if family == "spartan":
        body = query or b""
        return ("%s %s %d\r\n" % (HOST, path, len(body))).encode("latin-1") + body, False
    raise ValueError(view)


# ------------------------------------------------------------------------- mutators
TRAVERSAL_TOKENS = [b"..", b"../", b"/..", b"/../", b"./", b"/./", b"//", b".\\", b"..\\",
                    b"\\\\", b"\x00", b"/../../../../etc/passwd", b"..%2f", b"%2e%2e/", b"....//"]


def pct(b: bytes, layers: int = 1, everything: bool = True) -> bytes:
    for _ in range(layers):
        if everything:
            b = b"".join(b"%%%02x" % c for c in b)
        else:
            b = urllib.parse.quote(b, safe="").encode()
    return b


def mutate_traversal(rng: random.Random, selector: bytes) -> bytes:
    """Insert a traversal token at a random path position of `selector`."""
    parts = selector.split(b"/")
    tok = rng.choice(TRAVERSAL_TOKENS)
    i = rng.randrange(len(parts) + 1)
    how = rng.randrange(4)
    if how == 0:
        parts.insert(i, tok.strip(b"/") or b"..")
        return b"/".join(parts)
    if how == 1:
        j = rng.randrange(len(selector) + 1)
        return selector[:j] + tok + selector[j:]
    if how == 2:
        return selector + b"/" + tok
    return b"/" + tok.lstrip(b"/") + selector


def random_line(rng: random.Random, maxlen: int = 60) -> bytes:
    n = rng.randrange(0, maxlen)
    alphabet = rng.choice([
        bytes(range(256)),
        b"\t\t +!$ /.\\?|%GETHADhtp:/01",
        b"abc/\t \r",
    ])
    return bytes(rng.choice(alphabet) for _ in range(n)).replace(b"\n", b"") + b"\r\n"


def gopher_expressible(selector: bytes) -> bool:
    """False for a selector the Gopher family cannot name: the request line is decoded as UTF-8 (surrogateescape) and
    every TAB-separated field is trimmed of white space (str.strip) before it is looked at, which the properties
    state as given (C05: 'Gopher family: ... no trailing blank'; C06: '... which Gopher request parsing strips')."""
    text = selector.decode("utf-8", "surrogateescape")
    return text.strip() == text and not any(c in text for c in "\t\r\n")


def gopher_ambiguous(selector: bytes) -> bool:
    """A Gopher selector whose bytes also have the documented shape of a request of a
    protocol listed earlier (Spartan: host, absolute path, digits, blank-separated;
    HTTP: GET/HEAD x HTTP/...; Gemini: starts with gemini://).  Such a line is, by the
    documented autodetection order, not a Gopher request."""
    line = selector.strip()
    parts = line.split(b" ")
    if len(parts) == 3 and all(parts) and parts[2].isdigit() and parts[1].startswith(b"/") \
            and not parts[0].startswith(b"/"):
        try:
            line.decode("ascii")
            return True
        except UnicodeDecodeError:
            pass
    if len(parts) == 3 and parts[0] in (b"GET", b"HEAD") and parts[2].startswith(b"HTTP/"):
        return True
    return line.startswith(b"gemini://")
