"""SP driver: the unmodified ``bin/pygopherd`` as a real server process.

    sp = ServerProcess({"usechroot": "yes"}, root=docroot, servertype="ThreadingTCPServer",
                       tls=True, strace_expr="chroot,bind,listen", inject=None, cwd=somewhere)
    sp.start(); sp.wait_ready(20); sp.request(b"/\\r\\n"); sp.stop()

* The configuration is the SHIPPED ``conf/pygopherd.conf`` plus overrides, written to
  a file in ``workdir`` (a private directory under /var/tmp unless the caller gives one).
* The server logs to stdout (``[logger] logmethod = file``); stdout/stderr go to files.
* The process is started with ``start_new_session=True``.  pygopherd's SIGTERM handler
  does ``os.kill(0, SIGHUP)`` (its whole process group), so the server must never share
  a process group with the harness; ``stop()`` signals only processes whose *session*
  is the one created here.
* Optionally wrapped in ``strace -f -o <file> -e trace=<expr> [-e inject=<spec>]``;
  ``parse_strace`` turns the output into a list of ``Sys`` records.
"""
from __future__ import annotations

import configparser
import errno
import os
import re
import shutil
import signal
import socket
import ssl
import subprocess
import sys
import tempfile
import threading
import time
import typing

from vf import REPO, VERIF

SHIPPED_CONF = os.path.join(REPO, "conf", "pygopherd.conf")
MIME_TYPES = os.path.join(REPO, "conf", "mime.types")
CERT = os.path.join(REPO, "testdata", "demo.crt")
KEY = os.path.join(REPO, "testdata", "demo.key")
ENTRY = os.path.join(REPO, "bin", "pygopherd")
INJECT_DIR = os.path.join(VERIF, "inject")
PYTHON = os.environ.get("VF_PYTHON") or "/venv/bin/python"
if not os.access(PYTHON, os.X_OK):
    PYTHON = sys.executable

READY_MARK = "Running.  Root is"

Overrides = typing.Mapping[typing.Union[str, typing.Tuple[str, str]], typing.Optional[str]]


def find_strace() -> typing.Optional[str]:
    for p in ("/usr/bin/strace", "/bin/strace", "/usr/local/bin/strace"):
        if os.access(p, os.X_OK):
            return p
    return shutil.which("strace")


_strace_ok: typing.Optional[typing.Tuple[bool, str]] = None


def strace_works() -> typing.Tuple[bool, str]:
    """(usable, reason): strace exists, may ptrace here, and supports -e inject."""
    global _strace_ok
    if _strace_ok is None:
        st = find_strace()
        if not st:
            _strace_ok = (False, "strace not installed")
        else:
            try:
                p = subprocess.run(
                    [st, "-f", "-o", "/dev/null", "-e", "trace=chroot",
                     "-e", "inject=chroot:error=EPERM:when=1",
                     PYTHON, "-c",
                     "import os\ntry:\n os.chroot('/')\nexcept PermissionError:\n raise SystemExit(42)\n"],
                    capture_output=True, timeout=60, start_new_session=True)
                if p.returncode == 42:
                    _strace_ok = (True, "ok")
                else:
                    _strace_ok = (False, "strace probe rc=%s: %s" % (
                        p.returncode, p.stderr.decode(errors="replace")[-300:]))
            except (OSError, subprocess.TimeoutExpired) as e:
                _strace_ok = (False, "strace probe failed: %r" % (e,))
    return _strace_ok


# ---- ports ---------------------------------------------------------------------------
_port_lock = threading.Lock()
_ports_handed_out: typing.Set[int] = set()


def reserve_port(host: str = "127.0.0.1") -> int:
    """A port that was free a moment ago and that this process has not handed out yet
    (the server sets SO_REUSEADDR, so it can bind it right after we close it)."""
    with _port_lock:
        for _ in range(200):
            s = socket.socket(socket.AF_INET, socket.SOCK_STREAM)
            try:
                s.bind((host, 0))
                port = s.getsockname()[1]
            finally:
                s.close()
            if port not in _ports_handed_out:
                _ports_handed_out.add(port)
                return port
        raise RuntimeError("could not reserve a port")


# ---- /proc helpers -----------------------------------------------------------------------
def _stat_fields(pid: int) -> typing.Optional[typing.List[str]]:
    try:
        with open("/proc/%d/stat" % pid, "rb") as fp:
            raw = fp.read().decode("latin-1")
    except OSError:
        return None
    r = raw.rfind(")")
    if r < 0:
        return None
    # fields after "pid (comm)": state ppid pgrp session ...
    return raw[r + 2:].split()


def session_members(sid: int) -> typing.List[typing.Tuple[int, str, int]]:
    """[(pid, state, ppid)] of every process whose session id is `sid`."""
    out = []
    try:
        names = os.listdir("/proc")
    except OSError:
        return out
    for n in names:
        if not n.isdigit():
            continue
        f = _stat_fields(int(n))
        if not f or len(f) < 4:
            continue
        try:
            if int(f[3]) == sid:
                out.append((int(n), f[0], int(f[1])))
        except ValueError:
            continue
    return out


def proc_status(pid: int) -> typing.Dict[str, typing.List[str]]:
    """/proc/<pid>/status as {field: [tokens]} (Uid -> 4 tokens, Groups -> n tokens)."""
    out: typing.Dict[str, typing.List[str]] = {}
    with open("/proc/%d/status" % pid) as fp:
        for ln in fp:
            k, _, v = ln.partition(":")
            out[k.strip()] = v.split()
    return out


# ---- strace output -------------------------------------------------------------------------
class Sys(typing.NamedTuple):
    pid: int
    name: str        # syscall name, or "+++exit", "+++killed", "---signal"
    args: str        # the argument text between the outer parentheses
    ret: typing.Optional[str]   # "0", "-1", "3", "?" ... ; None while unfinished and never resumed
    err: str         # text after the return value, e.g. "EPERM (Operation not permitted) (INJECTED)"
    line: int

    @property
    def ok(self) -> bool:
        return self.ret is not None and not self.ret.startswith("-") and self.ret != "?"

    def brief(self) -> str:
        a = self.args if len(self.args) <= 100 else self.args[:100] + "..."
        s = "%s(%s) = %s" % (self.name, a, self.ret)
        if self.err:
            s += " " + self.err
        return s


_re_line = re.compile(r"^(?:\[pid\s+)?(\d+)\]?\s+(?:\d[\d:.]*\s+)?(.*)$")
_re_call = re.compile(r"^([A-Za-z_][A-Za-z0-9_]*)\((.*)$")
_re_resumed = re.compile(r"^<\.\.\. ([A-Za-z_][A-Za-z0-9_]*) resumed>\s?(.*)$")
_re_unfinished = re.compile(r"\s*<unfinished \.\.\.>(?:\)\s+= \?)?\s*$")
_re_ret = re.compile(r"^(.*)\)\s+= (-?\d+|0x[0-9a-f]+|\?)(?:\s+(.*))?$")


def parse_strace(path: str) -> typing.List[Sys]:
    """Parse ``strace -f -o`` output.  A call that was interrupted by another task's
    line is placed where it *started*; its result is filled in from the resumed line."""
    events: typing.List[Sys] = []
    pending: typing.Dict[typing.Tuple[int, str], int] = {}
    try:
        fp = open(path, "r", errors="replace")
    except OSError:
        return events
    with fp:
        for lineno, raw in enumerate(fp, 1):
            raw = raw.rstrip("\n")
            m = _re_line.match(raw)
            if not m:
                continue
            pid = int(m.group(1))
            rest = m.group(2)
            if rest.startswith("+++"):
                mm = re.match(r"^\+\+\+ exited with (\d+) \+\+\+", rest)
                if mm:
                    events.append(Sys(pid, "+++exit", mm.group(1), mm.group(1), "", lineno))
                else:
                    events.append(Sys(pid, "+++killed", rest.strip("+ "), None, "", lineno))
                continue
            if rest.startswith("---"):
                events.append(Sys(pid, "---signal", rest.strip("- "), None, "", lineno))
                continue
            mr = _re_resumed.match(rest)
            if mr:
                name, tail = mr.group(1), mr.group(2)
                idx = pending.pop((pid, name), None)
                mret = _re_ret.match(tail) or _re_ret.match(")" + tail)
                ret, err, more = None, "", ""
                if mret:
                    more, ret, err = mret.group(1), mret.group(2), mret.group(3) or ""
                if idx is not None:
                    old = events[idx]
                    events[idx] = Sys(pid, name, (old.args + more).rstrip(), ret, err, old.line)
                else:
                    events.append(Sys(pid, name, more, ret, err, lineno))
                continue
            mc = _re_call.match(rest)
            if not mc:
                continue
            name, tail = mc.group(1), mc.group(2)
            mu = _re_unfinished.search(tail)
            if mu:
                args = tail[:mu.start()].rstrip()
                pending[(pid, name)] = len(events)
                events.append(Sys(pid, name, args, None, "", lineno))
                continue
            mret = _re_ret.match(tail)
            if mret:
                events.append(Sys(pid, name, mret.group(1), mret.group(2), mret.group(3) or "", lineno))
            else:
                events.append(Sys(pid, name, tail, None, "", lineno))
    return events


# ---- configuration ---------------------------------------------------------------------------
def build_config(root: str, port: int, servertype: str = "ThreadingTCPServer",
                 tls: bool = False, overrides: typing.Optional[Overrides] = None,
                 pidfile: typing.Optional[str] = None) -> configparser.ConfigParser:
    """Shipped configuration + what a site operator edits.  An override key is either
    ``(section, option)`` or a bare option name of ``[pygopherd]``; value None removes
    the option."""
    config = configparser.ConfigParser()
    with open(SHIPPED_CONF) as fp:
        config.read_file(fp)
    base = {
        ("pygopherd", "root"): root,
        ("pygopherd", "mimetypes"): MIME_TYPES,
        ("pygopherd", "port"): str(port),
        ("pygopherd", "interface"): "127.0.0.1",
        ("pygopherd", "servername"): "verif.example",
        ("pygopherd", "advertisedport"): "70",
        ("pygopherd", "servertype"): servertype,
        ("pygopherd", "detach"): "no",
        ("pygopherd", "usechroot"): "no",
        ("pygopherd", "pidfile"): pidfile,
        ("pygopherd", "enable_tls"): "yes" if tls else "no",
        ("logger", "logmethod"): "file",
    }
    if tls:
        base[("pygopherd", "tls_certfile")] = CERT
        base[("pygopherd", "tls_keyfile")] = KEY
    for k, v in (overrides or {}).items():
        if isinstance(k, str):
            k = ("pygopherd", k)
        base[k] = v
    for (sec, opt), val in base.items():
        if val is None:
            if config.has_section(sec):
                config.remove_option(sec, opt)
            continue
        if not config.has_section(sec):
            config.add_section(sec)
        config.set(sec, opt, val)
    return config


class ServerProcess:
    """One run of the real server.  Always ``stop()`` it (or use it as a context manager)."""

    def __init__(self, conf_overrides: typing.Optional[Overrides] = None,
                 root: typing.Optional[str] = None,
                 servertype: str = "ThreadingTCPServer", tls: bool = False,
                 strace_expr: typing.Optional[str] = None,
                 inject: typing.Union[None, str, typing.Sequence[str]] = None,
                 cwd: typing.Optional[str] = None,
                 env: typing.Optional[typing.Mapping[str, str]] = None,
                 workdir: typing.Optional[str] = None,
                 port: typing.Optional[int] = None,
                 strace_opts: typing.Sequence[str] = (),
                 name: str = "sp",
                 popen_kwargs: typing.Optional[typing.Mapping[str, typing.Any]] = None):
        self._own_workdir = workdir is None
        if workdir is None:
            base = os.environ.get("VERIF_SCRATCH") or "/var/tmp"
            workdir = tempfile.mkdtemp(prefix="vf-sp-", dir=base)
        os.makedirs(workdir, exist_ok=True)
        self.workdir = workdir
        self.name = name
        if root is None:
            root = os.path.join(workdir, name + ".root")
            os.makedirs(root, exist_ok=True)
        self.root = root
        self.servertype = servertype
        self.tls = tls
        self.port = port if port is not None else reserve_port()
        self.conf_path = os.path.join(workdir, name + ".conf")
        self.stdout_path = os.path.join(workdir, name + ".stdout")
        self.stderr_path = os.path.join(workdir, name + ".stderr")
        self.strace_expr = strace_expr
        self.inject = [inject] if isinstance(inject, str) else list(inject or [])
        self.strace_opts = list(strace_opts)
        self.strace_path: typing.Optional[str] = (
            os.path.join(workdir, name + ".strace") if (strace_expr or self.inject) else None)
        self.cwd = cwd or workdir
        self.extra_env = dict(env or {})
        # e.g. {"extra_groups": [0, 4242]} to start the server with supplementary groups
        self.popen_kwargs = dict(popen_kwargs or {})
        self.config = build_config(root, self.port, servertype, tls, conf_overrides,
                                   pidfile=os.path.join(workdir, name + ".pid"))
        with open(self.conf_path, "w") as fp:
            self.config.write(fp)
        self.popen: typing.Optional[subprocess.Popen] = None
        self.sid: typing.Optional[int] = None
        self._pid: typing.Optional[int] = None
        self.returncode: typing.Optional[int] = None
        self._stopped = False

    # ---- life cycle ------------------------------------------------------------------
    def argv(self) -> typing.List[str]:
        cmd = [PYTHON, ENTRY, self.conf_path]
        if getattr(self, "launcher_code", None):
            # a tiny launcher (what a set-uid wrapper or service manager does before exec): runs inside the traced
            # process, then replaces itself by the server
            cmd = [PYTHON, "-c", self.launcher_code + "\nimport os, sys\nos.execv(sys.argv[1], sys.argv[1:])", PYTHON, ENTRY, self.conf_path]
        if self.strace_path:
            st = find_strace()
            if not st:
                raise RuntimeError("strace requested but not installed")
            pre = [st, "-f", "-o", self.strace_path] + self.strace_opts
            if self.strace_expr:
                pre += ["-e", "trace=" + self.strace_expr]
            for spec in self.inject:
                pre += ["-e", "inject=" + spec]
            cmd = pre + ["--"] + cmd
        return cmd

    def start(self) -> "ServerProcess":
        env = dict(os.environ)
        pp = [REPO]
        if os.path.isdir(INJECT_DIR):
            pp.append(INJECT_DIR)
        env["PYTHONPATH"] = os.pathsep.join(pp)
        env["PYTHONDONTWRITEBYTECODE"] = "1"
        env.setdefault("PYTHONHASHSEED", "0")
        env.update(self.extra_env)
        out = open(self.stdout_path, "wb")
        err = open(self.stderr_path, "wb")
        try:
            self.popen = subprocess.Popen(
                self.argv(), cwd=self.cwd, env=env, stdin=subprocess.DEVNULL,
                stdout=out, stderr=err, start_new_session=True, close_fds=True,
                **self.popen_kwargs)
        finally:
            out.close()
            err.close()
        self.sid = self.popen.pid
        if not self.strace_path:
            self._pid = self.popen.pid
        return self

    @property
    def pid(self) -> typing.Optional[int]:
        """pid of the python server process (strace's child when wrapped)."""
        if self._pid is None and self.popen is not None:
            deadline = time.monotonic() + 10
            while self._pid is None:
                for p, _state, ppid in session_members(self.sid):
                    if ppid == self.popen.pid and p != self.popen.pid:
                        self._pid = p
                        break
                if self._pid is None:
                    # the tracee may already be gone: take it from the trace
                    if self.popen.poll() is not None or time.monotonic() > deadline:
                        ev = parse_strace(self.strace_path) if self.strace_path else []
                        if ev:
                            self._pid = ev[0].pid
                        break
                    time.sleep(0.01)
        return self._pid

    def alive(self) -> bool:
        return self.popen is not None and self.popen.poll() is None

    def wait_ready(self, timeout: float = 20.0, probe: str = "auto") -> bool:
        """True once the server says 'Running.' (probe='log'), or accepts a TCP
        connection (probe='connect').  'auto' = 'log' when logging goes to stdout.
        False when the process exited or the time is up (callers treat the latter
        as inconclusive, never as a verdict)."""
        if probe == "auto":
            probe = "log" if self.config.get("logger", "logmethod") == "file" else "connect"
        deadline = time.monotonic() + timeout
        while True:
            if probe == "log":
                if READY_MARK in self.stdout_text():
                    return True
            else:
                try:
                    s = socket.create_connection(("127.0.0.1", self.port), timeout=1.0)
                    s.close()
                    return True
                except OSError:
                    pass
            if not self.alive():
                return False
            if time.monotonic() > deadline:
                return False
            time.sleep(0.02)

    def wait_exit(self, timeout: float = 20.0) -> typing.Optional[int]:
        """Exit status of the top process (strace mirrors its tracee's), None on timeout."""
        assert self.popen is not None
        try:
            self.returncode = self.popen.wait(timeout)
        except subprocess.TimeoutExpired:
            return None
        return self.returncode

    def request(self, data: bytes, tls: bool = False, timeout: float = 15.0,
                half_close: bool = True) -> bytes:
        """One connection: send `data`, read until EOF.  Raises OSError/ssl.SSLError/
        socket.timeout to the caller (a client-side timeout is never a verdict)."""
        s = socket.create_connection(("127.0.0.1", self.port), timeout=timeout)
        c: typing.Any = s
        try:
            s.settimeout(timeout)
            if tls:
                ctx = ssl.SSLContext(ssl.PROTOCOL_TLS_CLIENT)
                ctx.check_hostname = False
                ctx.verify_mode = ssl.CERT_NONE
                c = ctx.wrap_socket(s, server_hostname="localhost")
            c.sendall(data)
            if half_close and not tls:
                try:
                    s.shutdown(socket.SHUT_WR)
                except OSError:
                    pass
            chunks = []
            while True:
                try:
                    b = c.recv(65536)
                except ssl.SSLError as e:
                    if chunks and ("EOF" in str(e) or isinstance(e, ssl.SSLZeroReturnError)):
                        break
                    raise
                except ConnectionResetError:
                    if chunks:
                        break
                    raise
                if not b:
                    break
                chunks.append(b)
            return b"".join(chunks)
        finally:
            try:
                c.close()
            except OSError:
                pass

    def can_connect(self, timeout: float = 1.0) -> typing.Optional[bool]:
        """True: TCP connect succeeded; False: refused; None: something else."""
        try:
            s = socket.create_connection(("127.0.0.1", self.port), timeout=timeout)
            s.close()
            return True
        except ConnectionRefusedError:
            return False
        except OSError:
            return None

    def _kill_session(self, sig: int, spare: typing.Collection[int] = ()) -> int:
        n = 0
        if self.sid is None:
            return 0
        for p, state, _pp in session_members(self.sid):
            if p in spare or state == "Z":
                continue
            try:
                os.kill(p, sig)
                n += 1
            except OSError:
                pass
        return n

    def stop(self, graceful: bool = False, timeout: float = 10.0) -> typing.Optional[int]:
        """Kill every process of the server's session (and nothing else).  With
        graceful=True the master first gets SIGTERM (its handler SIGHUPs its own
        process group and exits 6).  When wrapped, strace is left alive until its
        tracees are gone so that the trace file is complete."""
        if self.popen is None or self._stopped:
            return self.returncode
        self._stopped = True
        try:
            wrapped = self.strace_path is not None
            if graceful and self.alive():
                p = self.pid
                if p:
                    try:
                        os.kill(p, signal.SIGTERM)
                    except OSError:
                        pass
                    try:
                        self.popen.wait(min(timeout, 5.0))
                    except subprocess.TimeoutExpired:
                        pass
            spare = (self.popen.pid,) if wrapped else ()
            deadline = time.monotonic() + timeout
            while time.monotonic() < deadline:
                # strace (spared) exits by itself once its tracees are gone
                n = self._kill_session(signal.SIGKILL, spare)
                if n == 0 and self.popen.poll() is not None:
                    break
                time.sleep(0.01)
            if self.popen.poll() is None:
                try:
                    self.popen.kill()
                except OSError:
                    pass
            try:
                self.returncode = self.popen.wait(5)
            except subprocess.TimeoutExpired:
                pass
            # whatever is still there in that session (orphans of a dead strace)
            for _ in range(20):
                if self._kill_session(signal.SIGKILL) == 0:
                    break
                time.sleep(0.01)
        finally:
            with _port_lock:
                _ports_handed_out.discard(self.port)
        return self.returncode

    def cleanup(self) -> None:
        """stop() and remove the private work directory (if the driver made it)."""
        self.stop()
        if self._own_workdir:
            shutil.rmtree(self.workdir, ignore_errors=True)

    def __enter__(self) -> "ServerProcess":
        return self.start()

    def __exit__(self, *a) -> None:
        self.cleanup()

    # ---- observations ------------------------------------------------------------------
    @staticmethod
    def _read(path: str) -> str:
        try:
            with open(path, "rb") as fp:
                return fp.read().decode("utf-8", "backslashreplace")
        except OSError:
            return ""

    def stdout_text(self) -> str:
        return self._read(self.stdout_path)

    def stderr_text(self) -> str:
        return self._read(self.stderr_path)

    def trace(self) -> typing.List[Sys]:
        return parse_strace(self.strace_path) if self.strace_path else []
