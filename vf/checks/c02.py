"""C02 -- protocol autodetection is deterministic, ordered and strict about TLS."""
from __future__ import annotations

import io
import itertools
import socket
import typing

from vf import common, driver, reqs
from vf.common import Check, Scratch
from vf.trees import Tree

from pygopherd.protocols import ProtocolMultiplexer  # noqa: E402  (the module under test)


SHIPPED_ORDER = ["wap.WAPProtocol", "gemini.GeminiProtocol", "http.HTTPProtocol", "http.HTTPSProtocol",
                 "spartan.SpartanProtocol", "gopherp.GopherPlusProtocol", "gopherp.SecureGopherPlusProtocol",
                 "rfc1436.GopherProtocol", "rfc1436.SecureGopherProtocol"]
SECURE = {"GeminiProtocol", "HTTPSProtocol", "SecureGopherPlusProtocol", "SecureGopherProtocol"}


class StubHandler:
    """What a protocol may look at on the connection handler: .request (the socket,
    for the TLS test), .client_address, and the per-connection header cache."""

    def __init__(self, sock):
        self.request = sock
        self.client_address = ("10.9.8.7", 4321)


# ------------------------------------------------------------------ reference classifier
def http_shape(line: str) -> typing.Optional[typing.List[str]]:
    parts = [p.strip() for p in line.split(" ")]
    if len(parts) == 3 and parts[0] in ("GET", "HEAD") and parts[2].startswith("HTTP/"):
        return parts
    return None


def wap_by_headers(headers: bytes) -> typing.Optional[bool]:
    """True / False when the documented rule decides (Accept lists WML and a WAP
    profile header is present), None (abstain) on shapes the documents do not cover."""
    seen: typing.Dict[str, typing.List[str]] = {}
    for raw in headers.split(b"\n"):
        ln = raw.decode("latin-1").strip()
        if not ln:
            break
        if ":" not in ln:
            continue
        k, v = ln.split(":", 1)
        seen.setdefault(k.lower(), []).append(v)
    if any(len(v) > 1 for v in seen.values()):
        return None  # duplicate headers: undocumented
    acc = seen.get("accept")
    if acc is None:
        return False
    a = acc[0]
    types = [t.strip().split(";")[0].strip() for t in a.split(",")]
    if "text/vnd.wap.wml" not in types:
        if "text/vnd.wap.wml" in a:
            return None  # substring but not a list element: abstain
        return False
    if not (a.startswith(" ") or a.startswith("\t")) and types[0] == "text/vnd.wap.wml":
        return None  # 'Accept:text/vnd.wap.wml' without a separator: abstain
    if a.startswith("\t") and types[0] == "text/vnd.wap.wml":
        return None
    return "x-wap-profile" in seen or "x-up-devcap-max-pdu" in seen


def classify(line: bytes, tls: bool, headers: bytes, waptop: str = "/wap") -> typing.Optional[str]:
    """Documented request shapes in the shipped order; None = abstain."""
    s = line.decode("utf-8", "surrogateescape")
    hp = http_shape(s)
    # WAP (plaintext HTTP shape + waptop prefix or WAP headers)
    if hp and not tls:
        path = hp[1]
        if path == waptop or path.startswith(waptop + "/") or path.startswith(waptop + "?"):
            return "WAPProtocol"
        w = wap_by_headers(headers)
        if w is None:
            return None
        if w:
            return "WAPProtocol"
    if tls and s.startswith("gemini://"):
        return "GeminiProtocol"
    if hp:
        return "HTTPSProtocol" if tls else "HTTPProtocol"
    if not tls:
        try:
            s.encode("ascii")
            ascii_ok = True
        except UnicodeEncodeError:
            ascii_ok = False
        parts = s.strip().split(" ")
        if ascii_ok and len(parts) == 3 and all(parts) and parts[2].isdigit() and parts[1].startswith("/") \
                and not parts[0].startswith("/"):
            # host SP path-absolute SP content-length (Spartan specification)
            # str.isdigit() is wider than [0-9] only for non-ASCII, excluded above
            return "SpartanProtocol"
    fields = [f.strip() for f in s.split("\t")]
    if len(fields) in (2, 3):
        last = fields[-1]
        if last == "!" or last[:1] in ("+", "$"):
            return "SecureGopherPlusProtocol" if tls else "GopherPlusProtocol"
    return "SecureGopherProtocol" if tls else "GopherProtocol"


# ---------------------------------------------------------------------- generators
HEADER_BLOCKS = [
    b"\r\n",
    b"Host: x\r\n\r\n",
    b"Accept: text/html, text/vnd.wap.wml\r\nX-Wap-Profile: \"http://x\"\r\n\r\n",
    b"Accept: text/vnd.wap.wml\r\nx-up-devcap-max-pdu: 1400\r\n\r\n",
    b"Accept: text/vnd.wap.wml, */*\r\n\r\n",
    b"Accept: text/html\r\nX-Wap-Profile: x\r\n\r\n",
    b"ACCEPT: image/gif, text/vnd.wap.wml;q=0.9\r\nX-WAP-PROFILE: x\r\n\r\n",
    b"X-Wap-Profile: x\r\n\r\n",
    b"Accept: text/vnd.wap.wmlscript\r\nX-Wap-Profile: x\r\n\r\n",
    b"Accept:text/vnd.wap.wml\r\nX-Wap-Profile: x\r\n\r\n",
    b"Accept: text/html\r\nAccept: text/vnd.wap.wml\r\nX-Wap-Profile: x\r\n\r\n",
    b"garbage line\r\nAccept: a, text/vnd.wap.wml\r\nX-Wap-Profile\r\n\r\n",
    b"Accept: a, text/vnd.wap.wml\r\nX-Wap-Profile: x",  # no blank line, EOF
    b"",
]


def gen_lines(rng, n: int) -> typing.List[bytes]:
    base = [b"", b"/", b"/a", b"/a b", b"/a b 1", b"a b 12", b"h /p 0", b"h /p 0x", b"h  0", b"h /p -1",
            b"\xc3\xa9 /p 1", b"h /p \xd9\xa1", b"h /p 1 ", b" h /p 1", b"h\t/p 1",
            b"GET / HTTP/1.0", b"GET /", b"GET / HTTP", b"get / HTTP/1.0", b"HEAD /x HTTP/1.1", b"GET  HTTP/1.0",
            b"GET / HTTP/1.0 ", b"GET\t/ HTTP/1.0", b"GET /a\tb HTTP/1.0", b"POST / HTTP/1.0", b"GET /wap HTTP/1.0",
            b"GET /wap/x HTTP/1.0", b"GET /wap?x HTTP/1.0", b"HEAD /wap/ HTTP/1.0", b"GET /wa HTTP/1.0",
            b"GET /WAP HTTP/1.0", b"GET /x/wap HTTP/1.0",
            b"gemini://h/", b"gemini://", b"Gemini://h/", b" gemini://h/", b"gemini:/h", b"gemini://h/\tx\t+",
            b"gemini://h/ 1 2", b"GET gemini://h/ HTTP/1.0",
            b"/a\t+", b"/a\t!", b"/a\t$", b"/a\t", b"/a\t\t", b"/a\tq", b"/a\tq\t+", b"/a\tq\t!", b"/a\tq\t$x",
            b"/a\tq\t", b"/a\t+\tq", b"/a\t \t+", b"/a\t+\t+\t+", b"\t+", b"\t", b"\t\t\t", b"/a\t +", b"/a\t+ ",
            b"/a\t!!", b"/a\t$$", b"/a\t-", b"/a\tq\t-", b"/a\t\xff", b"/a\t+\xff",
            b"\x16\x03\x01", b"\x00", b"\xff\xfe", b"/" + b"x" * 500,
            # third tokens that a lenient integer parser takes for a number, but that are no digit strings
            b"h /p +1", b"h /p -0", b"h /p 1_0", b"h /p \x0c7", b"h /p \x0b12", b"h /p 0x10", b"h /p 1e3", b"h /p 1.0", b"h /p 0b1",
            b"h /p ++1", b"h /p 1+", b"h /p _1", b"h /p 1_", b"h /p 00", b"h /p 007", b"h /p " + b"9" * 4400, b"h /p " + b"1" * 30,
            b"notes /2024 +1", b"notes /2024 1_0", b"h /p \xef\xbc\x91", b"h /p \xc2\xb2",
            # characters inside the first line that str.splitlines() takes for line ends (the line is read up to LF only)
            b"GET /a HTTP/1.0\x0bx y", b"GET /a HTTP/1.0\x0c", b"h /p 0\rjunk", b"/sel\t+\x1c\tx", b"\rGET /a HTTP/1.0", b"/a\t+\x1dmore",
            b"GET /a\xc2\x85 HTTP/1.0", b"h /p\xe2\x80\xa8 0", b"/a\x0b\t+", b"/a\t\x0c+", b"gemini://h/\x1ex", b"/a\tq\x0b\t$", b"GET /wap\x0c/x HTTP/1.0",
            b"HEAD /a HTTP/1.0\x1e\t+", b"/a\rb\t!", b"x\x0b /p 1",
            # a Gopher search string that has the Spartan shape itself
            b"/find.sh\tmount /mnt 2", b"/a\tword /p 0", b"/find.sh\tq /p 12\t+", b"/a b\tc /d 1"]
    out = list(base)
    shapes = [b"GET %s HTTP/1.0", b"HEAD %s HTTP/1.1", b"gemini://h%s", b"h %s 0", b"h %s 12", b"%s", b"%s\t+",
              b"%s\t!", b"%s\t$", b"%s\tq\t+", b"%s\tquery"]
    paths = [b"/", b"/a", b"/wap", b"/wap/a", b"/a b", b"/a%20b", b"/\xe9", b"/a\tb", b"/a  b", b"", b"/1 2 3",
             b"/GET / HTTP/1.0", b"/gemini://x"]
    while len(out) < n:
        r = rng.random()
        if r < 0.5:
            out.append(rng.choice(shapes) % rng.choice(paths))
        elif r < 0.8:
            ln = bytearray(rng.choice(out))
            for _ in range(rng.randrange(1, 3)):
                op = rng.randrange(4)
                pos = rng.randrange(len(ln) + 1)
                tok = rng.choice([b" ", b"\t", b"+", b"!", b"$", b"0", b"/", b"\xff", b"G", b"gemini://", b"HTTP/"])
                if op == 0:
                    ln[pos:pos] = tok
                elif op == 1 and ln:
                    del ln[min(pos, len(ln) - 1)]
                elif op == 2:
                    ln = ln[:pos]
                else:
                    ln = ln + tok
            out.append(bytes(ln))
        else:
            out.append(reqs.random_line(rng).rstrip(b"\r\n"))
    # terminators as read by readline(): CRLF, LF, none
    res = []
    for i, ln in enumerate(out):
        ln = ln.replace(b"\n", b"")
        res.append(ln + (b"\r\n", b"\n", b"\r\n", b"")[i % 4])
    return res


# ------------------------------------------------------------------------------ the check
class Laws:
    def __init__(self, chk: Check, site: driver.Site):
        self.chk = chk
        self.site = site
        a, b = socket.socketpair()
        self._keep = (a, b)
        self.plain_sock = a
        self.tls_sock = driver.MockTLSSocket(b)
        self.ns = dict(vars(ProtocolMultiplexer))

    def proto_classes(self, order: typing.List[str]):
        return [eval(x, self.ns) for x in order]

    def accepts(self, cls, line: str, tls: bool, headers: bytes):
        stub = StubHandler(self.tls_sock if tls else self.plain_sock)
        p = cls(line, self.site.server, stub, io.BytesIO(headers), io.BytesIO(), self.site.config)
        return bool(p.canhandlerequest())

    def winner(self, order: typing.List[str], line: str, tls: bool, headers: bytes):
        cfg = self.site.config
        cfg.set("protocols.ProtocolMultiplexer", "protocols", "[" + ", ".join(order) + "]")
        stub = StubHandler(self.tls_sock if tls else self.plain_sock)
        gp = getattr(ProtocolMultiplexer.getProtocol, "__wrapped__", ProtocolMultiplexer.getProtocol)
        p = gp(line, self.site.server, stub, io.BytesIO(headers), io.BytesIO(), cfg)
        return type(p).__name__ if p is not None else None

    def check_line(self, raw: bytes, tls: bool, headers: bytes, orders: typing.List[typing.List[str]]) -> None:
        chk = self.chk
        line = raw.decode(errors="surrogateescape")
        sample = {"line": raw[:120], "tls": tls, "headers": headers[:80]}
        acc: typing.Dict[str, bool] = {}
        for name in SHIPPED_ORDER:
            cls = eval(name, self.ns)
            try:
                acc[cls.__name__] = self.accepts(cls, line, tls, headers)
            except Exception as e:  # a shape test must not raise
                chk.witness("C02/shape-test-raises:%s:%s" % (cls.__name__, type(e).__name__), dict(sample, error=repr(e)))
                return
        for cname, a in acc.items():
            if a and (cname in SECURE) != tls:
                chk.witness("C02/tls-mismatch:%s" % cname, sample)
        for oi, order in enumerate(orders):
            names = [o.split(".")[1] for o in order]
            try:
                w1 = self.winner(order, line, tls, headers)
                w2 = self.winner(order, line, tls, headers)
            except Exception as e:
                chk.witness("C02/selection-raises:%s" % type(e).__name__, dict(sample, error=repr(e), order=names))
                return
            if w1 != w2:
                chk.witness("C02/nondeterministic", dict(sample, w1=w1, w2=w2))
            expect = next((n for n in names if acc[n]), None)
            if w1 != expect:
                chk.witness("C02/not-first-match", dict(sample, order=names, winner=w1, first_accepting=expect, accepts=acc))
            if oi == 0:
                if w1 is None:
                    chk.witness("C02/unclaimed-with-shipped-list", sample)
                ref = classify(raw, tls, headers)
                if ref is None:
                    chk.count("reference_abstained")
                elif ref != w1:
                    chk.witness("C02/shape-vs-documented:%s-claimed-by-%s" % (ref, w1), dict(sample, reference=ref, winner=w1))
                chk.case((w1, tls, len(line.split("\t")), len(line.split(" ")) == 3), sample if chk.evaluations % 97 == 0 else None)
        chk.count("orders_evaluated", len(orders))


def first_byte_sweep(chk: Check, root: str) -> None:
    """All 256 first bytes on a live connection, TLS enabled and disabled."""
    tls_site = driver.Site(root, tls_context=True)
    try:
        answers = {}
        for b in range(256):
            data = bytes([b]) + b"probe-%02x\r\n" % b
            r = tls_site.request(data)
            answers[b] = r
        real = tls_site.request(b"/probe-real\r\n", tls="real")
        # a client that stays silent for longer than the configured receive timeout (the accepted socket carries
        # SO_RCVTIMEO, as one accepted from the daemon's listening socket does) and only then sends 0x16: late is not plaintext
        import socket as _socket
        import struct as _struct

        def with_rcvtimeo(sock):
            sock.setsockopt(_socket.SOL_SOCKET, _socket.SO_RCVTIMEO, _struct.pack("ll", 1, 0))
            sock.setsockopt(_socket.SOL_SOCKET, _socket.SO_SNDTIMEO, _struct.pack("ll", 1, 0))
            return sock
        for delay in (1.4, 0.4):
            late = tls_site.request(b"\x16probe-late\r\n", server_sock_wrapper=with_rcvtimeo, initial_delay=delay)
            chk.count("late_first_byte_connections")
            if b"probe-late" in late.data or late.protocol not in (None, "<raised>"):
                chk.witness("C02/late-0x16-answered-in-plaintext", {"silent_for": delay, "receive_timeout": 1, "reply": late.data[:120],
                                                                    "protocol": late.protocol, "log": late.log[:2]})
            else:
                chk.case(("late-firstbyte", delay), {"silent_for": delay, "reply": late.data[:60], "protocol": late.protocol})
    finally:
        tls_site.close()
    plain_site = driver.Site(root, tls_context=False)
    try:
        for b in range(256):
            data = bytes([b]) + b"probe-%02x\r\n" % b
            ref = plain_site.request(data)
            got = answers[b]
            sample = {"first_byte": b, "reply": got.data[:100], "reference": ref.data[:100], "escaped": got.escaped[:1]}
            if b != 0x16:
                if got.data != ref.data or got.protocol != ref.protocol:
                    chk.witness("C02/sniff-changes-plaintext-request", sample)
                else:
                    chk.case(("firstbyte", b), sample if b in (0, 0x15, 0x17) else None)
            else:
                if b"probe-16" in got.data or got.protocol not in (None, "<raised>"):
                    chk.witness("C02/0x16-not-treated-as-tls", sample)
                elif b"\x16probe-16" not in ref.data:
                    chk.witness("C02/0x16-with-tls-disabled-not-plaintext", sample)
                else:
                    chk.case(("firstbyte", b), sample)
        if real.protocol != "SecureGopherProtocol" or b"probe-real" not in real.data:
            chk.witness("C02/genuine-tls-client-not-answered-by-secure-protocol",
                        {"protocol": real.protocol, "reply": real.data[:100], "tls_error": real.tls_error})
        chk.count("first_bytes_swept", 256)
    finally:
        plain_site.close()


def long_lines(chk: Check, root: str) -> None:
    """Every documented shape with a first line of 1 KiB .. 1 MiB, on a live connection: what the connection
    handler hands to the multiplexer must be the whole line (most shapes are recognised by their *end*)."""
    site = driver.Site(root, tls_context=True)
    try:
        for n in (900, 1100, 2000, 4090, 4200, 9000, 70000, 300000, 1100000):
            pad = b"p" * n
            shapes = [(b"GET /a.txt?pad=" + pad + b" HTTP/1.0", b"\r\n"), (b"HEAD /" + pad + b" HTTP/1.1", b"Host: x\r\n\r\n"),
                      (b"GET /wap/" + pad + b" HTTP/1.0", b"\r\n"), (b"verif.example /" + pad + b" 0", b""),
                      (b"/" + pad + b"\t+", b""), (b"/a.txt\t" + pad + b"\t$", b""), (b"/" + pad + b"\t!", b""),
                      (b"gemini://verif.example/" + pad, b""), (b"/" + pad, b""), (b"/a.txt\t" + pad, b"")]
            for line, hdrs in shapes:
                for tls in (False, True):
                    want = classify(line, tls, hdrs)
                    r = site.request(line + b"\r\n" + hdrs, tls=tls)
                    chk.count("long_first_lines_on_live_connections")
                    sample = {"line_head": line[:40], "line_tail": line[-24:], "length": len(line), "tls": tls, "reference": want,
                              "answered_by": r.protocol, "reply_head": r.data[:80]}
                    if want is not None and r.protocol != want:
                        chk.witness("C02/long-line:%s-claimed-by-%s" % (want, r.protocol), sample)
                        return
                    chk.case(("long-line", want, tls, n), sample if n == 4200 and not tls else None)
    finally:
        site.close()


def main() -> int:
    chk = Check("C02", "exploration")
    quick = chk.tier == "quick"
    if not quick and chk.args.shard is None:
        common.run_shards(chk, "vf.checks.c02", 16, timeout=2400)
        sweep = True
        nlines = 0
    else:
        nlines = 8000 if quick else 30000
        sweep = quick or chk.args.shard == 0
    with Scratch("c02") as sc:
        root = sc.sub("root")
        Tree().file("a.txt", "a\n").materialize(root)
        if nlines:
            site = driver.Site(root)
            laws = Laws(chk, site)
            rng = chk.rng
            perms = [SHIPPED_ORDER]
            for _ in range(2 if quick else 8):
                o = list(SHIPPED_ORDER)
                rng.shuffle(o)
                perms.append(o[:rng.randrange(3, len(o) + 1)])
            perms.append(list(reversed(SHIPPED_ORDER)))
            lines = gen_lines(rng, nlines)
            for i, raw in enumerate(lines):
                tls = bool(i % 2) if rng.random() < 0.9 else not bool(i % 2)
                hp = http_shape(raw.decode(errors="surrogateescape"))
                hdrs = rng.choice(HEADER_BLOCKS) if hp else rng.choice([b"", b"\r\n", b"xyz\r\n"])
                laws.check_line(raw, tls, hdrs, perms)
                laws.check_line(raw, not tls, hdrs, perms[:1])
            site.config.set("protocols.ProtocolMultiplexer", "protocols", "[" + ", ".join(SHIPPED_ORDER) + "]")
            site.close()
        if sweep:
            first_byte_sweep(chk, root)
            long_lines(chk, root)
    return chk.finish(
        rule="case = (first line, TLS?, header block) evaluated on the real protocol classes: every class alone "
             "(accepts?), getProtocol twice for the shipped order and for shuffled/truncated/reversed orders; "
             "laws: no raise, deterministic, winner = first accepting class of the order, secure flag = TLS-ness, "
             "shipped list always claims, winner = independent classifier of the documented shapes (abstaining "
             "where the documents are silent); plus all 256 first bytes on a live connection with TLS enabled "
             "and disabled. distinct = (winner, TLS, #tab fields, 3-blank-parts?) tuples + first bytes",
        assumptions=["TLS-ness is presented to the shape tests as an ssl.SSLSocket instance (mock TLS) in the law "
                     "part and as a genuine handshake in the first-byte sweep",
                     "the reference classifier abstains on: duplicate "
                     "headers, 'Accept:' value without a separator before the WML type"])


if __name__ == "__main__":
    common.main_wrapper(main)
