"""C16 -- ZIP archives are transparent: /T.zip/<sel> is /T/<sel>."""
from __future__ import annotations

import os
import shutil
import re
import typing

from vf import audit, common, driver, reqs, trees, validate
from vf.common import Check, Scratch
from vf.trees import Tree

ARCH = b"ZQXARCH"
VIEWS = ["gopher", "gophers", "gopherp+", "gopherp$", "gopherp!", "http", "httphead", "wap", "gemini", "spartan"]


def norm(data: bytes) -> bytes:
    data = data.replace(ARCH + b".zip", ARCH)
    data = re.sub(rb"Last-Modified: [^\r\n]*\r\n", b"", data)
    data = re.sub(rb" Mod-Date: [^\r\n]*\r\n", b"", data)
    return data


def gen_tree(rng, scratch: str) -> typing.Tuple[Tree, typing.List[bytes], typing.Dict[bytes, bytes]]:
    """-> tree (the extracted form), implicit-directory list, special members {path: kind}"""
    t = Tree()
    dirs = [b""]
    names_classes = ("plain", "spaces", "unicode", "nonutf8", "reserved")
    for _ in range(rng.randrange(2, 5)):
        parent = rng.choice(dirs)
        dn, _c = trees.gen_name(rng, names_classes, ext="")
        if len(dn) < 7:
            dn += b"-folder"
        d = (parent + b"/" + dn).strip(b"/")
        t.dir(d)
        dirs.append(d)
    for i in range(rng.randrange(4, 12)):
        parent = rng.choice(dirs)
        ext = rng.choice([".txt", ".gif", ".html", ".pdf", "", ".qqq", ".txt.gz"])
        fn, _c = trees.gen_name(rng, names_classes, ext=ext)
        if len(fn) < 7:
            fn = b"file-" + fn
        p = (parent + b"/" + fn).strip(b"/")
        if p in t.nodes:
            continue
        if ext == ".html":
            data = trees.html_doc(rng.choice(["Zipped Title", None, "A & B"]))
        elif ext == ".txt.gz":
            data = trees.gz(b"compressed text %d\n" % i * 20)
        else:
            data = trees.gen_content(rng, rng.choice([0, 1, 100, 4096, 5000, 20000]), rng.choice(trees.CONTENT_CLASSES))
        t.file(p, data)
        if rng.random() < 0.25:
            t.file(p + b".abstract", "Abstract of a member\nline two")
    # metadata inside the archive
    d = rng.choice(dirs)
    pre = d + b"/" if d else b""
    t.file(pre + b"meta-one.txt", "one\n")
    t.file(pre + b"meta-two.txt", "two\n")
    t.file(pre + b".names", "Path=./meta-one.txt\nName=Renamed Inside\nNumb=1\n\nPath=./meta-two.txt\nType=X\n")
    t.file(pre + b".Links", "Name=Remote from archive\nType=1\nPath=/r\nHost=h.example.org\nPort=70\n")
    t.file(pre + b".cap/meta-one.txt", "Abstract=cap abstract\n")
    # metadata files holding bytes that are not valid UTF-8 (read with surrogateescape on disk)
    t.file(b"latin-dir/doc.txt", "doc\n")
    t.file(b"latin-dir/doc.txt.abstract", b"caf\xe9 abstract \xff\xfe\nsecond l\xefne")
    t.file(b"latin-dir/.abstract", b"R\xe9sum\xe9 of the directory")
    t.file(b"latin-dir/.names", b"Path=./doc.txt\nName=Renamed caf\xe9\nNumb=1\n")
    t.file(b"latin-dir/.cap/doc.txt", b"Abstract=cap caf\xe9\n")
    t.file(b"mapped-dir/gophermap", "Hello from a gophermap\n0A file\tfile.txt\n1Remote\t/x\thost.example\t70\n"
           # links to members that are there by name but resolve to nothing
           "0Dangling\tdangling\n0Loop\tloop-a\n1Link to dir\tto-sub\n0Missing\tnothing-here\n"
           # directories named the way gophermap authors usually do, with a slash at the end; one has sidecars
           "1Sub with a slash\tsub/\n1Described with a slash\tdescribed/\n1Through a link, with a slash\tto-sub/\n"
           "1Described, plain\tdescribed\n0A file with a slash\tfile.txt/\n"
           # absolute selectors: they name objects of the site, not members (whatever their length or their last component)
           "0Site file\t/ZQXSITE-file.txt\n0Same length as the archive's name\t/ZQXSITEdir/mapped-dir/file.txt\n1Site directory\t/ZQXSITEdir\n"
           "0Not there at all\t/ZQXSITE-nothing.txt\n"
           # ... nor do objects whose names merely begin with the archive's (a checksum beside it, an older copy)
           "0Checksum of the archive\t/ZQXARCH.zip.sha256\n1Older copy, unpacked\t/ZQXARCH.zip.old\n0In the older copy\t/ZQXARCH.zip.old/file.txt\n")
    t.file(b"mapped-dir/described/inside.txt", "inside\n")
    t.file(b"mapped-dir/described/.abstract", "Abstract of the described directory")
    t.file(b"mapped-dir/described/.keywords", "described, keywords")
    t.symlink(b"mapped-dir/dangling", b"no-such-member")
    t.symlink(b"mapped-dir/loop-a", b"loop-b")
    t.symlink(b"mapped-dir/loop-b", b"loop-a")
    t.file(b"mapped-dir/sub/in.txt", "in\n")
    t.symlink(b"mapped-dir/to-sub", b"sub")
    # sidecars of the archive's own top level (on disk: of the directory it was extracted to)
    t.file(b".abstract", "Abstract of the whole archive\nsecond line")
    t.file(b".keywords", "archive, keywords")
    t.file(b"mapped-dir/file.txt", "mapped\n")
    # a gophermap directory (and a *.gophermap file) with sidecars of their own, seen from the parent's listing
    t.file(b"mapped-dir/.abstract", "Abstract of the mapped directory")
    t.file(b"mapped-dir/.keywords", "maps, keywords")
    t.file(b"maps/menu.gophermap", "A map file\n0Target\t/links-dir/target.txt\n")
    t.file(b"maps/menu.gophermap.abstract", "Abstract of the map file")
    t.file(b"maps/plain.txt", "plain\n")
    t.dir(b"empty-dir")                       # explicit directory members without anything below them
    t.dir(b"holder/empty-inside")
    t.symlink(b"links-dir/to-empty", b"../empty-dir")
    t.file(b"dotted-dir/.hidden-file", "hidden\n")
    t.file(b"dotted-dir/visible.txt", "v\n")
    # symlink members (relative, to directory, absolute-in-archive, dangling, cyclic)
    t.file(b"links-dir/target.txt", "the target\n")
    t.file(b"links-dir/tdir/in.txt", "in tdir\n")
    t.symlink(b"links-dir/rel-link.txt", b"target.txt")
    t.symlink(b"links-dir/up-link.txt", b"../mapped-dir/file.txt")
    t.symlink(b"links-dir/dir-link", b"tdir")
    t.symlink(b"links-dir/dangling-link", b"nowhere.txt")
    t.symlink(b"links-dir/cycle-a", b"cycle-b")
    t.symlink(b"links-dir/cycle-b", b"cycle-a")
    t.symlink(b"links-dir/chain-link", b"rel-link.txt")
    # a link that passes through a symlinked directory which is stored later in the archive
    t.symlink(b"links-dir/a-through-dirlink.txt", b"../zz-dirlink/in.txt")
    t.symlink(b"zz-dirlink", b"links-dir/tdir")
    # an archive stored inside the archive (on disk: the same file, browsed by the same handler)
    inner = Tree().file("in.txt", "inside the inner archive\n").file("d/deep.txt", "deep\n").file("d/page.html", trees.html_doc("Inner"))
    inner.file("d/.names", "Path=./deep.txt\nName=Deep Renamed\n").dir("d/void")
    t.file(b"pack/inner.zip", inner.to_zip())
    t.file(b"pack/beside.txt", "beside\n")
    # a directory can be left implicit only if some member lies below it
    nonempty = {d for d in t.dirs() if any(p.startswith(d + b"/") and n["kind"] != "dir" for p, n in t.nodes.items())}
    implicit = [x for x in t.dirs() if x in nonempty and rng.random() < 0.4]
    return t, implicit, {}


def selectors_of(t: Tree, rng) -> typing.List[bytes]:
    sels = [b""]
    for p, n in sorted(t.nodes.items()):
        sels.append(b"/" + p)
    # through links
    sels += [b"/links-dir/dir-link/in.txt", b"/links-dir/dir-link", b"/links-dir/dangling-link", b"/links-dir/cycle-a",
             b"/zz-dirlink/in.txt", b"/zz-dirlink"]
    # below the root of an archive stored in the archive
    sels += [b"/pack/inner.zip" + x for x in (b"/in.txt", b"/d", b"/d/deep.txt", b"/d/page.html", b"/d/void", b"/nope", b"/d/nope",
                                               b"/d/.names")]
    # missing names and hostile suffixes
    some = [s for s in sels if s]
    for _ in range(12):
        base = rng.choice(some)
        sels.append(rng.choice([base + b"/nope", base + b"x", base + b"/", base + b"/../" + base.rsplit(b"/", 1)[-1],
                                base + b"//", b"/nope" + base, base + b"/./x", base + b"\\", base + b"|x", base + b"?x"]))
    return sels


def differential(chk: Check, sc: Scratch, idx: int) -> None:
    rng = chk.subrng("tree", idx)
    t, implicit, _ = gen_tree(rng, sc.path)
    root = sc.sub("root%d" % idx)
    site_tree = Tree()
    site_tree.subtree(ARCH, t)
    # absolute symlink members point into the archive; on disk they point into the extracted tree
    zt = Tree()
    zt.nodes = dict(t.nodes)
    zt.symlink(b"links-dir/abs-link.txt", b"/links-dir/target.txt")
    site_tree.symlink(ARCH + b"/links-dir/abs-link.txt", os.path.join(os.fsencode(root), ARCH, b"links-dir/target.txt"))
    # member timestamps as archivers write them: ordinary ones, the all-zero DOS date of tools that record no
    # time, a seconds field of 30 (:60), the last representable date (timestamps themselves are not compared)
    odd_dates = [(1980, 0, 0, 0, 0, 0), (2020, 9, 13, 12, 26, 60), (2107, 12, 31, 23, 59, 58), (1980, 1, 1, 0, 0, 0), (2001, 0, 5, 1, 1, 2),
                 (2001, 2, 31, 1, 1, 2), (1999, 1, 1, 25, 61, 0)]
    drng = chk.subrng("dates", idx)
    dates = {p: (drng.choice(odd_dates) if drng.random() < 0.3 else (2020, 9, 13, 12, 26, 40)) for p in sorted(zt.nodes)}
    chk.count("members_with_odd_dos_dates", sum(1 for d in dates.values() if d in odd_dates))
    site_tree.file(ARCH + b".zip", zt.to_zip(explicit_dirs=True, omit_dirs=implicit, date_for=dates.get))
    # objects of the site itself, named by absolute selectors in the archived gophermap (one sits where cutting the
    # archive's name off the selector would land on a member)
    site_tree.file(b"ZQXSITE-file.txt", "a file of the site\n" * 300)
    site_tree.file(ARCH + b".zip.sha256", "0123456789abcdef  ZQXARCH.zip\n")
    site_tree.file(ARCH + b".zip.sha256.abstract", "Checksum file of the site")
    site_tree.file(ARCH + b".zip.old/file.txt", "older\n" * 50)
    site_tree.file(b"ZQXSITEdir/mapped-dir/file.txt", "the site's own file, not the member\n" * 100)
    site_tree.file(b"ZQXSITEdir/mapped-dir/file.txt.abstract", "Abstract of the site's file")
    site_tree.materialize(root)
    site = driver.Site(root, handlers=driver.HANDLERS_FULL)
    try:
        sels = selectors_of(zt, rng) + [b"/links-dir/abs-link.txt"]
        for sel in sels:
            for view in (VIEWS if not (idx % 2 and view_skip(sel)) else VIEWS[:3]):
                a_req, tls = reqs.render(view, b"/" + ARCH + sel)
                z_req, _ = reqs.render(view, b"/" + ARCH + b".zip" + sel)
                if reqs.VIEWS[view][0] in ("gopher", "gopherp") and reqs.gopher_ambiguous(b"/" + ARCH + sel):
                    continue
                driver.clean_server_files(root)
                ra = site.request(a_req, tls=tls)
                rz = site.request(z_req, tls=tls)
                chk.count("pairs_compared")
                na, nz = norm(ra.data), norm(rz.data)
                sample = {"selector": sel, "view": view, "disk": na[:300], "zip": nz[:300], "ziplog": rz.log[:3], "disklog": ra.log[:2],
                          "implicit_dirs": implicit[:4], "escaped": rz.escaped[:1]}
                if rz.escaped or [e for e in rz.exceptions() if not validate.is_io_error_name(e)]:
                    chk.witness("C16/zip-request-crashed:%s" % (rz.exceptions() or ["?"])[0], sample)
                    return
                if na != nz:
                    va, vz = validate.validate(ra, a_req), validate.validate(rz, z_req)
                    kind = "%s-vs-%s" % (va.klass, vz.klass)
                    node = zt.nodes.get(sel.strip(b"/"), {}).get("kind", "missing-or-derived")
                    chk.witness("C16/differs:%s:%s:%s" % (node, kind, reqs.VIEWS[view][0]), sample)
                    return
                va = validate.validate(ra, a_req)
                chk.case((view, zt.nodes.get(sel.strip(b"/"), {}).get("kind", "derived"), va.klass,
                          sel.strip(b"/") in implicit, _ncls(sel)), sample if chk.evaluations % 401 == 0 else None)
    finally:
        site.close()


def view_skip(sel: bytes) -> bool:
    return False


def _ncls(s: bytes) -> str:
    try:
        s.decode("utf-8")
        return "utf8" if any(c >= 0x80 for c in s) else "ascii"
    except UnicodeDecodeError:
        return "raw"


def real_file_only(chk: Check, sc: Scratch) -> None:
    """Mailbox, Maildir, script, PYG members: served as plain documents/directories; the
    handlers that need a real file must not act (no mailbox opened, no mkdir, no process)."""
    root = sc.sub("special")
    outside = sc.sub("outside-cwd")
    z = Tree()
    mbox = trees.make_mbox(["Subject one", "Subject two"], sc.path)
    z.file("mail.mbox", mbox)
    z.subtree("md", trees.maildir_tree(["Maildir one"], where="cur"))
    z.file("run.sh", b"#!/bin/sh\necho EXECUTED-MEMBER\n", mode=0o755)
    z.file("mod.pyg", trees.pyg_echo().replace(b"PYG SEARCH", b"EXECUTED-PYG"), mode=0o755)
    z.file("page.html.tal", b"<html><body tal:content=\"string:TAL-EXPANDED\">x</body></html>")
    z.file("plain.txt", "plain\n")
    z.file("sub/mail2.mbox", mbox)
    Tree().file(ARCH + b".zip", z.to_zip()).materialize(root)
    # the working directory holds look-alikes of the members' archive-relative paths
    t2 = Tree()
    t2.file("mail.mbox", trees.make_mbox(["OUTSIDE SECRET"], sc.path))
    t2.file("run.sh", b"#!/bin/sh\necho OUTSIDE-SCRIPT-RAN\n", mode=0o755)
    t2.file("mod.pyg", b"raise SystemError('outside pyg imported')\n", mode=0o755)
    t2.materialize(outside)
    for order, hl in (("sample-order", driver.HANDLERS_FULL), ("archives-first", HANDLERS_ZIP_FIRST)):
        chk.count("real_file_only_handler_order:" + order)
        _real_file_only_requests(chk, root, outside, hl, z, mbox)


# the full list with the archive handler moved to the front (a site where archives take precedence): below an
# archive every other handler is then consulted with the archive's file system, never with the real one
HANDLERS_ZIP_FIRST = "[ZIP.ZIPHandler, " + driver.HANDLERS_FULL.replace("ZIP.ZIPHandler, ", "").lstrip("[")


def _real_file_only_requests(chk: Check, root: str, outside: str, handlers: str, z: Tree, mbox: bytes) -> None:
    site = driver.Site(root, handlers=handlers)
    cwd = os.getcwd()
    os.chdir(outside)
    try:
        before = sorted(os.listdir(outside))
        cases = [(b"/mail.mbox", "doc", mbox), (b"/md", "menu", None), (b"/run.sh", "doc", z.nodes[b"run.sh"]["data"]),
                 (b"/mod.pyg", "doc", z.nodes[b"mod.pyg"]["data"]), (b"/sub/mail2.mbox", "doc", mbox),
                 (b"/mail.mbox|/MBOX-MESSAGE/1", "error", None), (b"/md|/MAILDIR-MESSAGE/1", "error", None),
                 (b"/run.sh?arg", "error", None), (b"/run.sh|arg", "error", None)]
        for sel, want, body in cases:
            for view in ("gopher", "gopherp+", "http", "gemini", "spartan", "gophers"):
                req, tls = reqs.render(view, b"/" + ARCH + b".zip" + sel)
                audit.RECORDER.start()
                r = site.request(req, tls=tls)
                evs = audit.RECORDER.stop()
                chk.count("real_file_only_requests")
                v = validate.validate(r, req)
                sample = {"selector": sel, "view": view, "reply": r.data[:200], "log": r.log[:3]}
                acted = [e for e in evs if e.name in ("subprocess.Popen", "os.mkdir", "os.fork", "os.posix_spawn", "os.exec")
                         or (e.name in ("exec", "compile") and "mod.pyg" in str(e.detail))
                         or (e.paths and any(audit.under(p, outside) for p in e.paths) and not e.from_import)]
                if acted:
                    chk.witness("C16/real-file-handler-acted-on-member:%s" % acted[0].name, dict(sample, events=[repr(e) for e in acted[:4]]))
                    return
                if b"OUTSIDE" in r.data or b"EXECUTED" in r.data.replace(b"echo EXECUTED-MEMBER", b"").replace(b"EXECUTED-PYG SEARCH", b"").replace(b"'EXECUTED-PYG", b""):
                    chk.witness("C16/member-executed-or-outside-content-served", sample)
                    return
                if not v.ok:
                    chk.witness("C16/special-member-reply-malformed", dict(sample, reason=v.reason))
                    return
                ph = (r.protocol_handler() or ("", ""))[1]
                if want == "error":
                    if v.klass != "error":
                        chk.witness("C16/virtual-selector-on-member-not-refused", sample)
                        return
                elif want == "doc":
                    got = v.parsed if isinstance(v.parsed, bytes) else v.parsed.get("body")
                    if v.klass not in ("doc", "any") or got != body:
                        chk.witness("C16/special-member-not-served-as-its-bytes", dict(sample, klass=v.klass))
                        return
                else:
                    if v.klass not in ("menu", "any") or b"MAILDIR-MESSAGE" in r.data:
                        chk.witness("C16/maildir-member-handled-as-mailbox", sample)
                        return
                chk.case(("special", sel.split(b"|")[0].split(b"?")[0], view, want), sample if view == "gopher" and want != "error" else None)
        after = sorted(os.listdir(outside))
        if after != before:
            chk.witness("C16/files-created-in-working-directory", {"before": before, "after": after})
    finally:
        os.chdir(cwd)
        site.close()


def nested_cache_lookalike(chk: Check, sc: Scratch) -> None:
    """An archive inside an archive, the outer one also holding a member named like the inner
    one's index cache; the working directory holds a real dbm shelf of that name."""
    import shelve
    root = sc.sub("nest")
    outside = sc.sub("nest-cwd")
    inner = Tree().file("in.txt", "inner file\n").file("d/e.txt", "e\n")
    outer = Tree().file("a.txt", "a\n").file("inner.zip", inner.to_zip(date_time=(2020, 1, 1, 0, 0, 0)))
    outer.file(".cache.pygopherd.zip3.inner.zip", b"not really a cache")
    Tree().file(ARCH + b".zip", outer.to_zip(date_time=(2021, 1, 1, 0, 0, 0))).materialize(root)
    with shelve.open(os.path.join(outside, ".cache.pygopherd.zip3.inner.zip"), "n") as db:
        db["0"] = {"OUTSIDE-SHELF-ENTRY.txt": "1", "in.txt": "1"}
        db["1"] = "in.txt"
    site = driver.Site(root, handlers=driver.HANDLERS_FULL)
    cwd = os.getcwd()
    os.chdir(outside)
    try:
        before = sorted(os.listdir(outside))
        for sel in (b"/inner.zip", b"/inner.zip/in.txt", b"/inner.zip/d", b"/inner.zip/OUTSIDE-SHELF-ENTRY.txt"):
            for view in ("gopher", "http", "gemini"):
                req, tls = reqs.render(view, b"/" + ARCH + b".zip" + sel)
                audit.RECORDER.start()
                r = site.request(req, tls=tls)
                evs = audit.RECORDER.stop()
                touched = [e for e in evs if e.paths and any(audit.under(p, outside) for p in e.paths)]
                sample = {"selector": sel, "view": view, "reply": r.data[:200], "log": r.log[:3], "events": [repr(e) for e in touched[:4]]}
                if b"OUTSIDE-SHELF-ENTRY" in r.data and sel != b"/inner.zip/OUTSIDE-SHELF-ENTRY.txt":
                    chk.witness("C16/nested-archive-index-read-from-working-directory", sample)
                    return
                if touched:
                    chk.witness("C16/nested-archive-cache-touched-working-directory:%s" % touched[0].name, sample)
                    return
                chk.case(("nested-cache-lookalike", sel, view), sample if view == "gopher" and sel == b"/inner.zip" else None)
        if sorted(os.listdir(outside)) != before:
            chk.witness("C16/files-created-in-working-directory", {"before": before, "after": sorted(os.listdir(outside))})
    finally:
        os.chdir(cwd)
        site.close()


def escaping_symlink(chk: Check, sc: Scratch) -> None:
    """A symlink member that points out of the archive resolves to nothing."""
    root = sc.sub("esc")
    z = Tree().file("inside.txt", "inside\n")
    for name, target in ((b"climb1", b"../secret.txt"), (b"climb2", b"../../secret.txt"), (b"d/climb3", b"../../secret.txt"),
                         (b"abs-out", b"/../secret.txt"), (b"abs-etc", b"/etc/passwd"), (b"dotdot", b"..")):
        z.symlink(name, target)
    z.file("d/x.txt", "x\n")
    Tree().file(ARCH + b".zip", z.to_zip()).file("secret.txt", "TOP-SECRET-OUTSIDE-ARCHIVE\n").materialize(root)
    site = driver.Site(root, handlers=driver.HANDLERS_FULL)
    try:
        for sel in (b"/climb1", b"/climb2", b"/d/climb3", b"/abs-out", b"/abs-etc", b"/dotdot", b"/dotdot/secret.txt", b"", b"/d"):
            for view in ("gopher", "http", "gemini"):
                req, tls = reqs.render(view, b"/" + ARCH + b".zip" + sel)
                r = site.request(req, tls=tls)
                if b"TOP-SECRET" in r.data or b"root:" in r.data:
                    chk.witness("C16/symlink-member-resolved-outside-archive", {"selector": sel, "view": view, "reply": r.data[:200]})
                    return
                if sel in (b"", b"/d"):
                    if re.search(rb"climb|abs-out|abs-etc|dotdot", r.data):
                        chk.witness("C16/escaping-symlink-listed", {"selector": sel, "view": view, "reply": r.data[:300]})
                        return
                else:
                    v = validate.validate(r, req)
                    if not v.ok or v.klass != "error":
                        chk.witness("C16/escaping-symlink-served", {"selector": sel, "view": view, "reply": r.data[:200]})
                        return
                chk.case(("escaping-symlink", sel, view), None)
    finally:
        site.close()


def odd_member_names(chk: Check, sc: Scratch) -> None:
    """Member names as some archivers write them -- absolute ('/docs/a.txt'), with an empty component
    ('pub//notes/n.txt') -- name what every extractor makes of them: docs/a.txt, pub/notes/n.txt."""
    import io
    import zipfile
    members = [("/top.txt", "top\n"), ("/docs/abs.txt", "abs\n"), ("docs/rel.txt", "rel\n"), ("pub//notes/n.txt", "n\n"),
               ("pub/plain.txt", "p\n"), ("/deep/er/still/x.txt", "x\n"), ("a///b/c.txt", "c\n")]
    bio = io.BytesIO()
    extracted = Tree()
    with zipfile.ZipFile(bio, "w") as z:
        for name, data in members:
            zi = zipfile.ZipInfo(name, (2020, 9, 13, 12, 26, 40))
            zi.external_attr = 0o100644 << 16
            z.writestr(zi, data)
            extracted.file("/".join(p for p in name.split("/") if p), data)
    root = sc.sub("odd")
    t = Tree()
    t.subtree(ARCH, extracted)
    t.file(ARCH + b".zip", bio.getvalue())
    t.materialize(root)
    site = driver.Site(root, handlers=driver.HANDLERS_FULL)
    try:
        sels = [b""] + sorted({b"/" + p for p in extracted.nodes}) + [b"/docs/nope", b"/pub/notes/nope"]
        for sel in sels:
            for view in ("gopher", "gopherp$", "http", "gemini"):
                a_req, tls = reqs.render(view, b"/" + ARCH + sel)
                z_req, _ = reqs.render(view, b"/" + ARCH + b".zip" + sel)
                driver.clean_server_files(root)
                ra, rz = site.request(a_req, tls=tls), site.request(z_req, tls=tls)
                chk.count("odd_member_name_pairs")
                if rz.escaped or [e for e in rz.exceptions() if not validate.is_io_error_name(e)]:
                    chk.witness("C16/zip-request-crashed:%s" % (rz.exceptions() or ["?"])[0],
                                {"selector": sel, "view": view, "members": [m for m, _ in members], "ziplog": rz.log[:3], "escaped": rz.escaped[:1]})
                    return
                if norm(ra.data) != norm(rz.data):
                    chk.witness("C16/differs:odd-member-name:%s" % reqs.VIEWS[view][0],
                                {"selector": sel, "view": view, "members": [m for m, _ in members], "disk": norm(ra.data)[:300],
                                 "zip": norm(rz.data)[:300], "ziplog": rz.log[:3]})
                    return
                chk.case(("odd-member-name", sel, view), None)
    finally:
        site.close()


def degenerate_archives(chk: Check, sc: Scratch) -> None:
    """The smallest archives there are: no member at all, nothing but an empty directory member, one file, one dot-file
    -- against the directories an extractor makes of them."""
    import io
    import zipfile

    def pack(members):
        bio = io.BytesIO()
        with zipfile.ZipFile(bio, "w") as z:
            for name, data in members:
                zi = zipfile.ZipInfo(name, (2020, 9, 13, 12, 26, 40))
                zi.external_attr = (0o40755 << 16) if name.endswith("/") else (0o100644 << 16)
                z.writestr(zi, data)
        return bio.getvalue()

    shapes = {"ZQXempty": [], "ZQXlonedir": [("only/", "")], "ZQXonefile": [("one.txt", "1\n")], "ZQXdotfile": [(".hidden", "h\n")],
              "ZQXemptyfile": [("zero.txt", "")], "ZQXdeepdir": [("a/b/c/", "")]}
    root = sc.sub("degenerate")
    t = Tree()
    for nm, members in shapes.items():
        t.file(nm + ".zip", pack(members))
        t.dir(nm)
        for name, data in members:
            if name.endswith("/"):
                t.dir(nm + "/" + name.rstrip("/"))
            else:
                t.file(nm + "/" + name, data)
    t.materialize(root)
    site = driver.Site(root, handlers=driver.HANDLERS_FULL)
    try:
        for nm, members in shapes.items():
            sels = [b"", b"/nothing", b"/nothing/deeper", b"/"] + [b"/" + m.rstrip("/").encode() for m, _ in members] + \
                   [b"/" + m.rstrip("/").encode() + b"/nope" for m, _ in members]
            for sel in sels:
                for view in ("gopher", "gopherp$", "gopherp+", "http", "gemini", "spartan"):
                    a_req, tls = reqs.render(view, b"/" + nm.encode() + sel)
                    z_req, _ = reqs.render(view, b"/" + nm.encode() + b".zip" + sel)
                    driver.clean_server_files(root)
                    ra, rz = site.request(a_req, tls=tls), site.request(z_req, tls=tls)
                    chk.count("degenerate_archive_pairs")
                    sample = {"archive": nm, "members": [m for m, _ in members], "selector": sel, "view": view,
                              "disk": ra.data[:300], "zip": rz.data[:300], "ziplog": rz.log[:3], "escaped": rz.escaped[:1]}
                    if rz.escaped or rz.hung or [e for e in rz.exceptions() if not validate.is_io_error_name(e)]:
                        chk.witness("C16/zip-request-crashed:%s" % (rz.exceptions() or ["?"])[0], sample)
                        return
                    if norm(ra.data) != norm(rz.data.replace(nm.encode() + b".zip", nm.encode())):
                        chk.witness("C16/differs:degenerate-archive:%s:%s" % (nm, reqs.VIEWS[view][0]), sample)
                        return
                    chk.case(("degenerate", nm, sel, view), None)
    finally:
        site.close()


def archive_replaced(chk: Check, sc: Scratch) -> None:
    """One long-lived server; the archive (and the extracted tree beside it) is replaced by a new release that keeps the
    old one's modification time (cp -p, rsync -t, a rebuild within the same second).  What is served is what is there."""
    root = sc.sub("replaced")
    stamp = 1600000000

    def release(n: int) -> Tree:
        t = Tree().file("readme.txt", "This is release %d.\n" % n).file("sub%d/x.txt" % n, "x%d\n" % n)
        t.file("only-in-%d.txt" % n, "only %d\n" % n).file("same.txt", "same in every release\n")
        return t

    site = driver.Site(root, handlers=driver.HANDLERS_FULL)
    try:
        for n in (1, 2, 3):
            t = release(n)
            shutil.rmtree(os.path.join(root, "ZQXREL"), ignore_errors=True)
            Tree().subtree(b"ZQXREL", t).materialize(root)
            tmp = os.path.join(root, ".incoming")
            with open(tmp, "wb") as fp:
                fp.write(t.to_zip())
            os.utime(tmp, (stamp, stamp))
            os.replace(tmp, os.path.join(root, "ZQXREL.zip"))
            sels = [b"", b"/readme.txt", b"/same.txt"] + [b"/only-in-%d.txt" % k for k in (1, 2, 3)] + [b"/sub%d" % k for k in (1, 2, 3)] + \
                   [b"/sub%d/x.txt" % k for k in (1, 2, 3)]
            for sel in sels:
                for view in ("gopher", "gopherp$", "gopherp+", "http"):
                    driver.clean_server_files(root)       # (the on-disk member index is another matter)
                    a_req, tls = reqs.render(view, b"/ZQXREL" + sel)
                    z_req, _ = reqs.render(view, b"/ZQXREL.zip" + sel)
                    ra, rz = site.request(a_req, tls=tls), site.request(z_req, tls=tls)
                    chk.count("replaced_archive_pairs")
                    if norm(ra.data) != norm(rz.data.replace(b"ZQXREL.zip", b"ZQXREL")):
                        chk.witness("C16/differs:archive-replaced-with-the-same-mtime:%s" % reqs.VIEWS[view][0],
                                    {"release": n, "selector": sel, "view": view, "disk": ra.data[:300], "zip": rz.data[:300], "ziplog": rz.log[:3]})
                        return
                    chk.case(("replaced", n, sel, view), None)
    finally:
        site.close()


def main() -> int:
    chk = Check("C16", "exploration")
    quick = chk.tier == "quick"
    if not quick and chk.args.shard is None:
        common.run_shards(chk, "vf.checks.c16", 16, timeout=2400)
    else:
        with Scratch("c16") as sc:
            for i in range(4 if quick else 14):
                differential(chk, sc, i)
            if quick or chk.args.shard == 0:
                real_file_only(chk, sc)
                nested_cache_lookalike(chk, sc)
                escaping_symlink(chk, sc)
                odd_member_names(chk, sc)
                degenerate_archives(chk, sc)
                archive_replaced(chk, sc)
    return chk.finish(
        rule="case = (selector, protocol view): the reply for /T.zip/<sel> must equal the reply for /T/<sel> (the same "
             "tree extracted, symlink members mirrored as symlinks) after replacing the prefix and dropping "
             "Last-Modified/Mod-Date; selectors = every member, implicit and explicit directory, dot-file, sidecar, "
             "link targets, missing names and hostile suffixes; plus mailbox/Maildir/script/PYG members (served as "
             "plain bytes, no process/mkdir/outside access per audit events) and symlink members pointing out of the "
             "archive. distinct = (view, member kind, reply class, implicit dir?, name class)",
        assumptions=["mailboxes, scripts and PYG files are compared only on the archive side (on disk they are acted upon)",
                     "symlinks that leave the archive are not mirrored on disk (the properties exclude symlinks leaving the root)"])


if __name__ == "__main__":
    common.main_wrapper(main)
