"""C12 -- one unservable entry never takes down its directory (fault enumeration)."""
from __future__ import annotations

import errno
import itertools
import os
import typing

from vf import common, crawl, driver, reqs, validate
from vf.checks import c06
from vf.common import Check, Scratch
from vf.trees import Tree

VIEWS = ["gopher", "gopherp+", "gopherp$", "http", "wap", "gemini", "spartan"]
# fault kind -> file name used for the faulty entry
FS_FAULTS = {
    "dangling-symlink": "zz-dangling",
    "fifo": "mm-fifo",
    "socket": "kk-socket",
    "name-dotdot": "notes..txt",
    "name-dot-backslash": "a.\\b.txt",
    "name-double-backslash": "c\\\\d.txt",
    "symlink-loop": "loop-link",
    # a link whose target runs through a regular file (stat fails with ENOTDIR, not ENOENT)
    "symlink-through-file": "via-file",
    # the same kinds under a dot-name: the UMN handler takes dot-files for link files and reads them
    "dot-dangling-symlink": ".dangling",
    "dot-fifo": ".fifo",
    "dot-socket": ".socket",
    "dot-symlink-loop": ".loop",
    # dot-names that also hold '..' (what atomic-update tools leave: '..data', '..2024_10_04'): regular files
    "dot-name-leading-dotdot": "..data",
    "dot-name-inner-dotdot": ".old..sock",
    # names that mean something to %-formatting, str.format, shells and globbing: the unservable
    # entry's name travels through error messages and log lines
    "percent-dangling-symlink": "50% off",
    "format-fifo": "a%sb%(k)d{0}{x}",
    "glob-socket": "*[a-z]?$HOME`id`",
    "percent-symlink-loop": "100%",
    # names that are not UTF-8 (a tree unpacked from an old archive), and one that is but not in Latin-1
    "bytes-dangling-symlink": "caf\udce9",
    "bytes-socket": "\udcff\udcfe sock",
    "bytes-fifo": "na\u00efve \u4e2d\u6587 \udce9",
    "bytes-name-dotdot": "r\udce9sum\udce9..old",
}
NAME_PREFIXES = ("dot-", "percent-", "format-", "glob-", "bytes-")
# unservable objects named like the sidecar of a healthy sibling (or of a healthy sub-directory): describing
# the sibling must survive them.  kind -> (what it is, sidecar extension)
SIDECAR_FAULTS = {"sidecar-socket": ("socket", ".abstract"), "sidecar-dir": ("dir", ".ask"), "sidecar-fifo": ("fifo", ".3d"),
                  "sidecar-loop": ("symlink-loop", ".keywords"), "dirsidecar-socket": ("socket", "/.abstract"),
                  "dirsidecar-dir": ("dir", "/.3d"),
                  # the same for the UMN per-file metadata file .cap/<name>
                  "capfile-fifo": ("fifo", "cap:"), "capfile-socket": ("socket", "cap:"), "capfile-dir": ("dir", "cap:"),
                  "capfile-loop": ("symlink-loop", "cap:"),
                  # something that is no regular file but is called like the file that turns a directory into a gophermap menu
                  "gophermap-socket": ("socket", "map:"), "gophermap-fifo": ("fifo", "map:"), "gophermap-dir": ("dir", "map:"),
                  "gophermap-loop": ("symlink-loop", "map:"), "gophermap-dangling": ("dangling", "map:")}
# names that one of the handlers claims by pattern: appended to the faulty entry's name
SUFFIXES = ["", ".gophermap", ".zip", ".mbox", ".pyg", ".html", ".html.tal", ".txt.gz"]
INJECTED = ["vanished-after-enumeration", "stat-ENOENT", "stat-EACCES", "vanishes-after-stat", "open-EACCES", "open-EIO"]
HEALTHY = ["alpha.txt", "beta.html", "gamma", "delta.gif", "epsilon.txt", "zeta", "eta.txt", "theta.pdf"]


def healthy_tree(names: typing.List[str]) -> Tree:
    t = Tree()
    for n in names:
        if n in ("gamma", "zeta"):
            t.file(n + "/inside.txt", "x\n")
        elif n.endswith(".html"):
            t.file(n, "<html><title>Title of %s</title></html>" % n)
        else:
            t.file(n, "content of %s\n" % n)
    return t


def add_fault(t: Tree, kind: str, pos_name: str, suffix: str = "", healthy: typing.Sequence[str] = ()) -> str:
    """Adds the faulty entry; returns its file name. pos_name steers its sort position."""
    if kind in SIDECAR_FAULTS:
        what, ext = SIDECAR_FAULTS[kind]
        if ext.startswith("/"):
            owner = next((h for h in healthy if h in ("gamma", "zeta")), None)
        else:
            owner = next((h for h in healthy if h not in ("gamma", "zeta")), None)
        if owner is None:
            owner, ext = "alpha.txt", ext.lstrip("/") if not ext.startswith("/.") else ".abstract"
        name = owner + ext
        if ext == "cap:":
            name = ".cap/" + owner
        if ext == "map:":
            name = "gophermap"
        if what == "dangling":
            t.symlink(name, "no-such-target")
            return name
        if what == "dir":
            t.file(name + "/inside.txt", "x\n")
        elif what == "symlink-loop":
            t.symlink(name, os.path.basename(name))
        else:
            t.special(name, what)
        return name
    name = pos_name + FS_FAULTS[kind] + suffix
    if kind.startswith("dot-"):
        name = FS_FAULTS[kind] + pos_name + suffix     # must keep its leading dot
    for pre in NAME_PREFIXES:
        if kind.startswith(pre):
            kind = kind[len(pre):]
    if kind == "dangling-symlink":
        t.symlink(name, "does-not-exist-anywhere")
    elif kind == "symlink-loop":
        t.symlink(name, name)
    elif kind == "symlink-through-file":
        t.symlink(name, (healthy[0] if healthy and healthy[0] not in ("gamma", "zeta") else "alpha.txt") + "/part2")
    elif kind == "fifo":
        t.special(name, "fifo")
    elif kind == "socket":
        t.special(name, "socket")
    else:
        t.file(name, "content\n")
    return name


class Injector:
    """Interposes os.listdir / os.stat for one directory of one root."""

    def __init__(self):
        self.real_listdir, self.real_stat = os.listdir, os.stat
        self.phantoms: typing.Dict[bytes, typing.List[bytes]] = {}
        self.stat_errors: typing.Dict[bytes, int] = {}
        self.vanish_after_stat: typing.Set[bytes] = set()
        self.open_errors: typing.Dict[bytes, int] = {}
        self.hits = 0

    def install(self):
        from pygopherd.handlers import base as basemod
        os.listdir, os.stat = self.listdir, self.stat
        if self.open_errors:
            basemod.open = self.open

    def remove(self):
        from pygopherd.handlers import base as basemod
        os.listdir, os.stat = self.real_listdir, self.real_stat
        try:
            del basemod.open
        except AttributeError:
            pass

    def open(self, path, *a, **kw):
        try:
            p = os.fsencode(path)
        except TypeError:
            return open(path, *a, **kw)
        if p in self.open_errors:
            self.hits += 1
            e = self.open_errors[p]
            raise OSError(e, os.strerror(e), os.fsdecode(p))
        return open(path, *a, **kw)

    def listdir(self, path="."):
        res = self.real_listdir(path)
        p = os.fsencode(path).rstrip(b"/")
        if p in self.phantoms:
            extra = self.phantoms[p]
            self.hits += 1
            res = list(res) + [e if isinstance(res[0] if res else b"", bytes) or isinstance(path, bytes) else os.fsdecode(e)
                               for e in extra]
        return res

    def stat(self, path, *a, **kw):
        try:
            p = os.fsencode(path)
        except TypeError:
            return self.real_stat(path, *a, **kw)
        if p in self.stat_errors:
            self.hits += 1
            e = self.stat_errors[p]
            raise OSError(e, os.strerror(e), os.fsdecode(p))
        res = self.real_stat(path, *a, **kw)
        if p in self.vanish_after_stat:
            # inspected successfully -- and gone the moment anybody tries to open it
            self.hits += 1
            self.vanish_after_stat.discard(p)
            try:
                os.unlink(p)
            except OSError:
                pass
        return res


def listing_entries(chk, site, view, sel):
    ents, resp, v = c06.listing(chk, site, view, sel)
    return ents, resp, v


def run_case(chk: Check, sc: Scratch, idx: int, handlers, hl_name: str, nhealthy: int, faults: typing.List[typing.Tuple[str, str]],
             depth: bytes, linkmode: typing.Optional[str] = None) -> None:
    """faults: [(kind, position prefix)]; linkmode: a UMN link file in the directory also names
    the faulty entries -- 'hide' (Type=X), 'rename' (Name=) or 'number' (Numb=)"""
    healthy = HEALTHY[:nhealthy]
    root = sc.sub("f%d" % idx)
    twin = sc.sub("t%d" % idx)
    t = healthy_tree(healthy)
    tt = healthy_tree(healthy)
    inj = Injector()
    faulty_names = []
    dfs = os.path.join(os.fsencode(root), depth).rstrip(b"/")
    suffix = SUFFIXES[idx % len(SUFFIXES)]
    for kind, pos in faults:
        if kind in FS_FAULTS or kind in SIDECAR_FAULTS:
            faulty_names.append(add_fault(t, kind, pos, suffix, healthy))
        elif kind == "vanished-after-enumeration":
            n = pos + "phantom" + (suffix or ".txt")
            inj.phantoms.setdefault(dfs, []).append(n.encode())
            faulty_names.append(n)
        elif kind in ("vanishes-after-stat", "open-EACCES", "open-EIO"):
            n = pos + "unopenable" + (suffix or ".txt")
            t.file(n, "From time to time a file is there for stat() and not for open()\n")
            if kind == "vanishes-after-stat":
                inj.vanish_after_stat.add(os.path.join(dfs, n.encode()))
            else:
                inj.open_errors[os.path.join(dfs, n.encode())] = errno.EACCES if kind == "open-EACCES" else errno.EIO
            faulty_names.append(n)
        else:
            n = pos + "unstatable" + (suffix or ".txt")
            t.file(n, "cannot be inspected\n")
            inj.stat_errors[os.path.join(dfs, n.encode())] = errno.ENOENT if kind == "stat-ENOENT" else errno.EACCES
            faulty_names.append(n)
    if len(set(faulty_names)) < len(faulty_names):
        # two fault kinds that claim the same name (e.g. two kinds of .cap/<name>) cannot be in one directory
        chk.count("pairs_skipped_same_name")
        return
    if linkmode == "gophermap" and "gophermap" in faulty_names:
        linkmode = None          # (the fault *is* the object called gophermap)
    if linkmode == "gophermap":
        # the directory is presented through a gophermap that names every entry, the unservable ones too; each
        # line is an entry of the listing in its own right (the twin's map names the healthy ones only)
        def gm(names):
            return "".join("%s%s\t%s\n" % ("1" if n in ("gamma", "zeta") else "0", "Entry " + n.strip("."), n) for n in names)
        inside = [n for n in faulty_names if "/" not in n and n != "gophermap" and "\t" not in n]
        t.file("gophermap", "A directory with a map\n" + gm(list(healthy) + inside))
        tt.file("gophermap", "A directory with a map\n" + gm(list(healthy)))
    elif linkmode:
        stanzas = []
        for n in faulty_names:
            extra = {"hide": "Type=X\n", "rename": "Name=Renamed %s\n" % n.strip("."), "number": "Numb=1\n"}[linkmode]
            stanzas.append("Path=./%s\n%s" % (n, extra))
        t.file(".names", "\n".join(stanzas))
    full, fulltwin = Tree(), Tree()
    if depth:
        full.subtree(depth, t)
        fulltwin.subtree(depth, tt)
    else:
        full, fulltwin = t, tt
    full.materialize(root)
    fulltwin.materialize(twin)
    sel = b"/" + depth if depth else b"/"
    base = b"" if sel == b"/" else sel
    faulty_sels = {base + b"/" + os.fsencode(n) for n in faulty_names}
    twinsite = driver.Site(twin, handlers=handlers)
    refs = {}
    try:
        for view in VIEWS:
            ents, resp, v = listing_entries(chk, twinsite, view, sel)
            if ents is None:
                chk.note_inconclusive("reference listing failed for %s" % view)
                return
            refs[view] = c06.normalize(view, ents, False)
    finally:
        twinsite.close()
    site = driver.Site(root, handlers=handlers)
    inj.install()
    try:
        kinds = "+".join(sorted(k for k, _ in faults)) + ("+linkfile-" + linkmode if linkmode else "") + \
            ("+named" + suffix if suffix else "")
        def judge(site_, tag):
            for view in VIEWS:
                ents, resp, v = listing_entries(chk, site_, view, sel)
                sample = {"handler": hl_name, "dir": sel, "faults": faults, "healthy": healthy, "view": view, "pass": tag,
                          "reply": resp.data[:200], "log": resp.log[:3], "escaped": resp.escaped[:1]}
                chk.count("faulted_listings")
                if ents is None:
                    what = "exception-escaped" if resp.escaped else ("empty-reply" if not resp.data else "error-reply")
                    chk.witness("C12/directory-lost:%s:%s%s" % (kinds, what, tag), sample)
                    return False
                got = [x for x in c06.normalize(view, ents, False) if not (len(x) > 2 and x[2] in faulty_sels)]
                if got != refs[view]:
                    missing = [x for x in refs[view] if x not in got]
                    chk.witness("C12/healthy-entries-%s:%s%s" % ("missing" if missing else "changed", kinds, tag),
                                dict(sample, missing=missing[:3], got=got[:4], want=refs[view][:4]))
                    return False
            return True

        if not judge(site, ""):
            return
        if idx % 3 == 0:
            # the same directory with the listing cache on: listed, and listed again within the cache's lifetime
            site.close()
            site = driver.Site(root, handlers=handlers, overrides={("handlers.dir.DirHandler", "cachetime"): "180"})
            for tag in (":cache-on-first", ":cache-on-again"):
                chk.count("faulted_listings_with_cache_on")
                if not judge(site, tag):
                    return
        if inj.open_errors and inj.hits == 0:
            chk.count("open_faults_on_entries_nobody_opens")    # e.g. a .txt file: listed without being read
        if (inj.phantoms or inj.stat_errors or inj.vanish_after_stat) and inj.hits == 0:
            if linkmode == "gophermap" and not (inj.stat_errors or inj.vanish_after_stat):
                # nothing enumerates a directory that has a map: the map itself names the entry that is not there
                chk.count("absent_entries_named_by_a_map")
            else:
                chk.note_inconclusive("fault injection hooks were never reached")
        chk.case((hl_name, kinds, tuple(p for _, p in faults), nhealthy, bool(depth)),
                 {"handler": hl_name, "dir": sel, "faults": faults, "healthy": nhealthy, "views": len(VIEWS), "linkfile": linkmode}
                 if idx % 37 == 0 else None)
    finally:
        inj.remove()
        site.close()
        import shutil
        shutil.rmtree(root, ignore_errors=True)
        shutil.rmtree(twin, ignore_errors=True)


def main() -> int:
    chk = Check("C12", "fault_enumeration")
    quick = chk.tier == "quick"
    kinds = list(FS_FAULTS) + INJECTED + list(SIDECAR_FAULTS)
    positions = ["", "c", "m", "zz"]      # sorts first, early, middle, last among the healthy names
    idx = 0
    lists = (("umn", None), ("plain", driver.HANDLERS_PLAINDIR), ("full", driver.HANDLERS_FULL),
             ("full+rewriter", driver.HANDLERS_FULL_REWRITE))
    if not quick and chk.args.shard is None:
        # one process per (handler list, half of the pair enumeration)
        common.run_shards(chk, "vf.checks.c12", 2 * len(lists), timeout=3300)
        return _finish(chk)
    shard = chk.args.shard
    with Scratch("c12") as sc:
        for li, (hl_name, hl) in enumerate(lists):
            if shard is not None and shard // 2 != li:
                continue
            # singles: every fault kind x every position x directory sizes
            # (sharded: the singles run in the even shard of each handler list)
            for kind in (kinds if shard is None or shard % 2 == 0 else []):
                for pos in positions:
                    for nh in ([1, 4, 8] if not quick else [1, 5]):
                        # (one-character directory names: '/d/x' has the shape of a type-prefixed selector)
                        depth = [b"", b"sub/dir", b"d", b"", b"1", b"sub/dir"][idx % 6]
                        modes = [None, "gophermap"]
                        if hl_name == "umn":
                            modes = [None, "hide", "rename", "number", "gophermap"]
                        if quick:
                            modes = [modes[(idx // 3) % len(modes)]]
                        for lm in modes:
                            run_case(chk, sc, idx, hl, hl_name, nh, [(kind, pos)], depth, lm)
                            idx += 1
            # pairs of faulty entries: all pairs of positions for every pair of kinds (thorough) / two kinds (quick)
            pair_kinds = list(itertools.combinations(kinds, 2)) if not quick else \
                [("dangling-symlink", "fifo"), ("name-dotdot", "stat-EACCES"), ("vanished-after-enumeration", "socket")]
            if shard is not None:
                pair_kinds = pair_kinds[shard % 2::2]
            for k1, k2 in pair_kinds:
                for p1, p2 in itertools.product(positions, positions) if not quick else [("", "zz"), ("m", "m"), ("c", "")]:
                    run_case(chk, sc, idx, hl, hl_name, 4, [(k1, p1), (k2, "x" + p2)], b"")
                    idx += 1
    return _finish(chk)


def _finish(chk: Check) -> int:
    return chk.finish(
        rule="case = (directory handler, fault kinds, sort positions of the faulty entries, number of healthy entries): "
             "the directory is listed through 7 protocol views and, after removing the faulty entries' own lines, "
             "must equal the listing of a twin directory holding only the healthy entries. Fault kinds: dangling and "
             "self-referential symlink, FIFO, UNIX socket, names containing '..', '.\\\\' and '\\\\\\\\', an entry that "
             "vanishes between enumeration and inspection (interposed os.listdir), stat failing with ENOENT/EACCES "
             "(interposed os.stat), and the file-system kinds again under names containing %-format, str.format, "
             "shell and glob syntax; singles at 4 positions, and pairs; under the UMN handler also with a link file "
             "in the directory whose stanzas (hide / rename / number) name the faulty entries; faulty names carry the "
             "suffixes handlers match by pattern (.gophermap .zip .mbox .pyg .html .html.tal .txt.gz); unservable "
             "objects named like a healthy sibling's (or sub-directory's) sidecar; non-UTF-8 faulty names; four handler lists",
        assumptions=["faults are injected by interposing os.listdir/os.stat in the harness process (hit counter checked)"],
        exhaustive=True)


if __name__ == "__main__":
    common.main_wrapper(main)
