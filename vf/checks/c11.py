"""C11 -- a cache file cut off at any byte is harmless (fault enumeration)."""
from __future__ import annotations

import builtins
import errno
import io
import os
import pickle as real_pickle
import sys
import threading
import time
import typing
import warnings

from vf import common, driver, reqs, validate
from vf.common import Check, Scratch
from vf.trees import Tree

from pygopherd.handlers import base as basemod  # noqa: E402
from pygopherd.handlers import dir as dirmod  # noqa: E402

VIEWS = ["gopher", "gopherp+", "gopherp$", "http", "wap", "gemini", "spartan", "gophers", "https"]
CACHE = b".cache.pygopherd.dir"


def gen_dir(rng, n: int) -> Tree:
    t = Tree()
    for i in range(n):
        k = rng.random()
        if k < 0.6:
            t.file("f%02d.txt" % i, "file %d\n" % i)
            if rng.random() < 0.3:
                t.file("f%02d.txt.abstract" % i, "abstract %d" % i)
        elif k < 0.8:
            t.file("d%02d/x.txt" % i, "x")
        else:
            t.file("p%02d.html" % i, "<html><title>Page %d</title></html>" % i)
    if rng.random() < 0.5:
        t.file(".Links", "Name=A link\nType=1\nPath=/elsewhere\nHost=h.example\nPort=70\n")
    return t


def references(site: driver.Site, root: str, sel: bytes) -> typing.Dict[str, bytes]:
    out = {}
    for view in VIEWS:
        driver.clean_server_files(root)
        req, tls = reqs.render(view, sel)
        out[view] = validate.normalize_ts(site.request(req, tls=tls).data)
    driver.clean_server_files(root)
    return out


# where the cached directory lives: the root itself, or a sub-directory whose name (part of the cache file's path,
# which ends up in log lines) holds characters that mean something to formatting, quoting or decoding layers
DIR_NAMES = [None, "100%", "plain", "%s and %d%%", "{0} {name}", "it's \"q\"", "caf\udce9", None]


CACHE_AGES = [0, 0.7, 0, 5, 90, 0, 900]


def prefix_enumeration(chk: Check, sc: Scratch, idx: int, n_entries: int, stride: int, handlers, hl_name: str,
                       dirname: typing.Optional[str] = None) -> None:
    rng = chk.subrng("dir", idx)
    root = sc.sub("p%d" % idx)
    where = root if dirname is None else os.path.join(root, dirname)
    selb = b"/" if dirname is None else b"/" + os.fsencode(dirname)
    gen_dir(rng, n_entries).materialize(where)
    chk.count("cached_directory:" + ("root" if dirname is None else "named:" + ascii(dirname)))
    site = driver.Site(root, handlers=handlers, overrides={("handlers.dir.DirHandler", "cachetime"): "1000"})
    try:
        ref = references(site, root, selb)
        req0, _ = reqs.render("gopher", selb)
        site.request(req0)
        cpath = os.path.join(os.fsencode(where), CACHE)
        if not os.path.exists(cpath):
            chk.note_inconclusive("no cache file was produced")
            return
        with open(cpath, "rb") as fp:
            full = fp.read()
        size = len(full)
        ks = list(range(0, size, stride))
        # opcode boundaries / interesting cuts
        ks += [1, 2, size - 1, size - 2, size // 2]
        cuts = sorted(set(k for k in ks if 0 <= k < size))
        cases = [("prefix", k, full[:k]) for k in cuts]
        cases.append(("zero-filled", size, b"\0" * size))
        cases.append(("garbage-tail", size, full[:size // 2] + b"\xff" * (size - size // 2)))
        import time
        for j, (kind, k, content) in enumerate(cases):
            with open(cpath, "wb") as fp:
                fp.write(content)
            # how long ago the writer died: just now, or some part of the lifetime (1000 s) ago -- still a fresh file
            age = CACHE_AGES[(j // len(VIEWS) + j) % len(CACHE_AGES)]
            if age:
                now = time.time()
                os.utime(cpath, (now - age, now - age))
                chk.count("damaged_caches_older_than_a_moment")
            view = VIEWS[j % len(VIEWS)]
            req, tls = reqs.render(view, selb)
            r = site.request(req, tls=tls)
            got = validate.normalize_ts(r.data)
            chk.count("faulted_cache_reads")
            if got != ref[view] or r.escaped:
                exc = (r.exceptions() or [r.escaped[0][0] if r.escaped else "?"])[0]
                what = "empty-reply" if not r.data else ("error-reply" if validate.validate(r, req).klass == "error" else "wrong-listing")
                chk.witness("C11/dir-cache-%s:%s:%s" % (kind, what, exc),
                            {"handler": hl_name, "directory": ascii(dirname), "cut": k, "size": size, "view": view,
                             "reply": r.data[:200], "log": r.log[:3],
                             "escaped": r.escaped[:1]})
                return
            chk.case((hl_name, kind, k if kind == "prefix" else -1, size), {"handler": hl_name, "kind": kind, "cut": k,
                                                                           "size": size, "view": view} if j % 997 == 0 else None)
        chk.count("cache_files_enumerated")
        chk.count("exhaustive_files" if stride == 1 else "strided_files")
    finally:
        site.close()


def zip_cache_enumeration(chk: Check, sc: Scratch, stride: int) -> None:
    rng = chk.subrng("zip")
    root = sc.sub("z")
    inner = Tree().file("a.txt", "a\n").file("sub/b.txt", "b\n").file("sub/c.html", "<html><title>C</title></html>")
    Tree().file("arch.zip", inner.to_zip()).materialize(root)
    site = driver.Site(root, handlers=driver.HANDLERS_FULL)
    try:
        refs = {}
        for sel in (b"/arch.zip", b"/arch.zip/sub", b"/arch.zip/a.txt"):
            driver.clean_server_files(root)
            req, _ = reqs.render("gopher", sel)
            refs[sel] = site.request(req).data
        site.request(reqs.render("gopher", b"/arch.zip")[0])
        files = sorted(f for f in os.listdir(root) if f.startswith(".cache.pygopherd.zip3"))
        if not files:
            chk.note_inconclusive("no ZIP index cache files were produced")
            return
        originals = {f: open(os.path.join(root, f), "rb").read() for f in files}
        for f in files:
            size = len(originals[f])
            for k in sorted(set(list(range(0, size, stride)) + [size - 1])) + ["zero"]:
                for g, data in originals.items():
                    with open(os.path.join(root, g), "wb") as fp:
                        fp.write(data)
                with open(os.path.join(root, f), "wb") as fp:
                    fp.write(b"\0" * size if k == "zero" else originals[f][:k])
                sel = rng.choice(list(refs))
                req, _ = reqs.render("gopher", sel)
                r = site.request(req)
                chk.count("faulted_zip_cache_reads")
                if r.data != refs[sel] or r.escaped:
                    chk.witness("C11/zip-cache-cut:%s:%s" % (f.rsplit(".", 1)[-1], (r.exceptions() or ["?"])[0]),
                                {"file": f, "cut": k, "size": size, "selector": sel, "reply": r.data[:200], "log": r.log[:3]})
                    return
                chk.case(("zip", f.rsplit(".", 1)[-1], k), None)
    finally:
        site.close()


class CacheFileShim:
    """Stands in for the name `open` inside pygopherd.handlers.base (the one place the server opens
    files of the real file system): every file is opened for real; for the directory cache file
      * a write-open returns a proxy whose write() can pause between two halves (the window in which a
        reader observes a truncated file) or fail with ENOSPC once N bytes have reached the file (a full disk);
      * a read-open is classified by what it saw (did it overlap a write in progress, was the content
        loadable) and hands exactly that snapshot to the caller.
    Independent of how the server serialises the listing."""

    def __init__(self, rng=None, pause: bool = False, full_after: typing.Optional[int] = None):
        self.lock = threading.Lock()
        self.rng = rng
        self.pause = pause
        self.full_after = full_after
        self.writes_in_progress = 0
        self.n_loads = self.n_dumps = self.loads_overlapping_dump = self.partial_reads = self.enospc_raised = 0

    def install(self):
        basemod.open = self.open

    def remove(self):
        try:
            del basemod.open
        except AttributeError:
            pass

    def open(self, path, mode="r", *a, **kw):
        fp = builtins.open(path, mode, *a, **kw)
        try:
            name = os.path.basename(os.fsencode(path))
        except TypeError:
            return fp
        if name != CACHE or "b" not in mode:
            return fp
        if "r" in mode and "+" not in mode:
            data = fp.read()
            fp.close()
            with self.lock:
                self.n_loads += 1
                if self.writes_in_progress:
                    self.loads_overlapping_dump += 1
            try:
                real_pickle.loads(data)
            except Exception:
                with self.lock:
                    self.partial_reads += 1
            return io.BytesIO(data)
        with self.lock:
            self.n_dumps += 1
            self.writes_in_progress += 1
        return _WriteProxy(self, fp)


class _WriteProxy:
    def __init__(self, shim: CacheFileShim, fp):
        self._shim, self._fp, self._written, self._closed = shim, fp, 0, False
        if shim.pause:
            time.sleep(shim.rng.choice([0.0002, 0.001, 0.002]))      # open (and truncated), nothing written yet

    def write(self, data):
        sh = self._shim
        data = bytes(data)
        if sh.full_after is not None:
            room = max(0, sh.full_after - self._written)
            if len(data) > room:
                self._fp.write(data[:room])
                self._fp.flush()
                self._written += room
                with sh.lock:
                    sh.enospc_raised += 1
                raise OSError(errno.ENOSPC, os.strerror(errno.ENOSPC))
        if sh.pause and len(data) > 1:
            with sh.lock:
                cut = sh.rng.randrange(0, len(data))
                pause = sh.rng.choice([0.0002, 0.001, 0.002])
            self._fp.write(data[:cut])
            self._fp.flush()
            time.sleep(pause)                                       # a prefix is visible
            self._fp.write(data[cut:])
            self._fp.flush()
        else:
            self._fp.write(data)
        self._written += len(data)
        return len(data)

    def close(self):
        if not self._closed:
            self._closed = True
            with self._shim.lock:
                self._shim.writes_in_progress -= 1
            self._fp.close()

    def __enter__(self):
        return self

    def __exit__(self, *exc):
        self.close()
        return False

    def __getattr__(self, name):
        return getattr(self._fp, name)


def writer_crash(chk: Check, sc: Scratch, stride: int, handlers, hl_name: str, n_entries: int = 6) -> None:
    """The *writer itself* dies (killed after N bytes: a forked copy of the harness serves the
    request under RLIMIT_FSIZE=N, the kernel kills it with SIGXFSZ at byte N) or meets a full
    disk (ENOSPC after N bytes), while an older, expired cache of the directory's previous
    contents exists.  The next request must show the directory as it is now."""
    import resource
    import signal
    root = sc.sub("wc-" + hl_name)
    t = Tree()
    for i in range(n_entries):
        t.file("%c-2023.txt" % (97 + i), "report %d\n" % i)
    t.file("sub/x.txt", "x")
    t.materialize(root)
    site = driver.Site(root, handlers=handlers, overrides={("handlers.dir.DirHandler", "cachetime"): "1000"})
    try:
        req0, _ = reqs.render("gopher", b"/")
        cpath = os.path.join(os.fsencode(root), CACHE)
        site.request(req0)
        if not os.path.exists(cpath):
            chk.note_inconclusive("no cache file was produced")
            return
        old = open(cpath, "rb").read()
        # the directory changes (same-length names: the new pickle has the old one's layout)
        for i in range(n_entries):
            os.rename(os.path.join(root, "%c-2023.txt" % (97 + i)), os.path.join(root, "%c-2024.txt" % (97 + i)))
        ref = references(site, root, b"/")
        site.request(req0)
        new = open(cpath, "rb").read()
        if new == old:
            chk.note_inconclusive("the directory change did not change the cache file")
            return
        size = len(new)
        cuts = sorted(set(list(range(0, size + 1, stride)) + [0, 1, 2, size - 1, size]))

        def stale():
            with open(cpath, "wb") as fp:
                fp.write(old)
            past = time.time() - 5000
            os.utime(cpath, (past, past))

        def forked(n: int, ignore_signal: bool) -> typing.Tuple[int, typing.Optional[bytes]]:
            """A forked copy of the harness serves the rewriting request under RLIMIT_FSIZE=n.  With the
            default SIGXFSZ the kernel kills it at byte n (-> (status, None)); with the signal ignored the
            write fails with EFBIG as on a full disk, and the copy then serves a *second* request with the
            disk still full, whose reply comes back through a pipe."""
            rfd, wfd = os.pipe()
            sys.stdout.flush()
            sys.stderr.flush()
            with warnings.catch_warnings():
                warnings.simplefilter("ignore")
                pid = os.fork()
            if pid == 0:
                try:
                    os.close(rfd)
                    signal.signal(signal.SIGXFSZ, signal.SIG_IGN if ignore_signal else signal.SIG_DFL)
                    resource.setrlimit(resource.RLIMIT_FSIZE, (n, resource.getrlimit(resource.RLIMIT_FSIZE)[1]))
                    site.request(req0)
                    if ignore_signal:
                        second = site.request(req0).data
                        os.write(wfd, b"R" + second)
                finally:
                    os._exit(0)
            os.close(wfd)
            chunks = []
            while True:
                c = os.read(rfd, 65536)
                if not c:
                    break
                chunks.append(c)
            os.close(rfd)
            _, status = os.waitpid(pid, 0)
            data = b"".join(chunks)
            return status, (data[1:] if data[:1] == b"R" else None)

        for j, n in enumerate(cuts):
            for mode in ("killed", "disk-full", "disk-full-kernel"):
                stale()
                second = None
                if mode == "killed":
                    status, _ = forked(n, False)
                    if os.WIFSIGNALED(status) and os.WTERMSIG(status) == signal.SIGXFSZ:
                        chk.count("writers_killed_by_kernel")
                    elif n < size:
                        chk.count("writers_not_killed")
                elif mode == "disk-full-kernel":
                    if j % 4:
                        continue
                    status, second = forked(n, True)
                    if second is None:
                        chk.count("full_disk_copies_without_second_reply")
                    else:
                        chk.count("second_requests_on_a_still_full_disk")
                        if n < size and validate.normalize_ts(second) != ref["gopher"]:
                            chk.witness("C11/request-on-full-disk-after-cut-off-cache:%s" % (
                                "empty-reply" if not second else "error-or-wrong-listing"),
                                {"handler": hl_name, "file_size_limit": n, "new_size": size, "reply": second[:300]})
                            return
                else:
                    shim = CacheFileShim(full_after=n)
                    shim.install()
                    try:
                        site.request(req0)
                        # the disk is still full when the next request comes
                        r2 = site.request(req0)
                    finally:
                        shim.remove()
                    chk.count("writers_hit_full_disk", shim.enospc_raised)
                    if n < size and shim.enospc_raised and (validate.normalize_ts(r2.data) != ref["gopher"] or r2.escaped):
                        chk.witness("C11/request-on-full-disk-after-cut-off-cache:%s" % ("empty-reply" if not r2.data else "error-or-wrong-listing"),
                                    {"handler": hl_name, "bytes_until_full": n, "new_size": size, "reply": r2.data[:300], "log": r2.log[:3]})
                        return
                try:
                    left = open(cpath, "rb").read()
                except OSError:
                    left = None
                view = VIEWS[j % len(VIEWS)]
                req, tls = reqs.render(view, b"/")
                r = site.request(req, tls=tls)
                got = validate.normalize_ts(r.data)
                chk.count("requests_after_writer_crash")
                if got != ref[view] or r.escaped:
                    what = "empty-reply" if not r.data else ("error-reply" if validate.validate(r, req).klass == "error"
                                                             else ("stale-or-mixed-listing" if b"2023" in r.data else "wrong-listing"))
                    chk.witness("C11/writer-%s-mid-write:%s" % (mode, what),
                                {"handler": hl_name, "bytes_written": n, "new_size": size, "old_size": len(old), "view": view,
                                 "left_on_disk": None if left is None else len(left), "reply": r.data[:300], "log": r.log[:3]})
                    return
                chk.case((hl_name, "writer-" + mode, n), {"handler": hl_name, "mode": mode, "bytes_written": n, "size": size,
                                                          "left_on_disk": None if left is None else len(left)}
                         if j % 101 == 0 else None)
    finally:
        site.close()


def reader_writer_race(chk: Check, sc: Scratch, rounds: int, per_round: int) -> None:
    rng = chk.subrng("race")
    root = sc.sub("race")
    gen_dir(rng, 6).materialize(root)
    site = driver.Site(root, overrides={("handlers.dir.DirHandler", "cachetime"): "1000"})
    ref = references(site, root, b"/")
    shim = CacheFileShim(rng, pause=True)
    shim.install()
    sys.setswitchinterval(1e-5)
    old_stderr = sys.stderr
    sys.stderr = io.StringIO()
    cpath = os.path.join(os.fsencode(root), CACHE)
    try:
        for rd in range(rounds):
            stop = threading.Event()

            def buster():
                # forces rewrites: a missing cache file is a miss, and every miss rewrites it
                while not stop.is_set():
                    try:
                        os.unlink(cpath)
                    except OSError:
                        pass
                    time.sleep(0.003)

            bt = threading.Thread(target=buster, daemon=True)
            bt.start()
            jobs = []
            views = []
            for _ in range(per_round):
                v = rng.choice(VIEWS)
                views.append(v)
                jobs.append(reqs.render(v, b"/"))
            site._escaped.clear()
            replies = driver.concurrent_requests(site, jobs, nthreads=8)
            stop.set()
            bt.join()
            for v, rep in zip(views, replies):
                chk.count("concurrent_reads")
                if validate.normalize_ts(rep) != ref[v]:
                    chk.witness("C11/reader-racing-writer:%s" % ("empty-reply" if not rep else "wrong-listing"),
                                {"view": v, "reply": rep[:200], "round": rd, "partial_reads_so_far": shim.partial_reads,
                                 "escaped": site._escaped[:1], "stderr": sys.stderr.getvalue()[-600:]})
                    return
            if site._escaped:
                chk.witness("C11/reader-racing-writer:exception-escaped", {"escaped": site._escaped[:1]})
                return
        for k in ("n_loads", "n_dumps", "loads_overlapping_dump", "partial_reads"):
            chk.count("race_" + k, getattr(shim, k))
        chk.case(("race", shim.partial_reads > 0, shim.loads_overlapping_dump > 0),
                 {"race": {k: getattr(shim, k) for k in ("n_loads", "n_dumps", "loads_overlapping_dump", "partial_reads")}})
        if shim.loads_overlapping_dump + shim.partial_reads < 30:
            chk.note_inconclusive("only %d reads overlapped a write" % (shim.loads_overlapping_dump + shim.partial_reads))
    finally:
        sys.stderr = old_stderr
        shim.remove()
        sys.setswitchinterval(0.005)
        site.close()


def real_process_race(chk: Check, sc: Scratch, nreq: int) -> None:
    """Readers racing writers in the real forking server: many clients ask for one directory while its cache file
    keeps being emptied, cut and removed (each miss rewrites it).  A reader must survive whatever it observes -- a
    dead worker shows as an empty or cut reply."""
    import random
    from concurrent.futures import ThreadPoolExecutor
    from vf import spdriver
    root = sc.sub("rp-root")
    gen_dir(chk.subrng("rp"), 9).materialize(root)
    sp = spdriver.ServerProcess(conf_overrides={("handlers.dir.DirHandler", "cachetime"): "1000"}, root=root,
                                servertype="ForkingTCPServer", tls=False, workdir=sc.sub("rp-wd"), name="c11")
    sp.start()
    try:
        if not sp.wait_ready(30):
            chk.note_inconclusive("C11 real server did not become ready")
            return
        cpath = os.path.join(os.fsencode(root), CACHE)
        ref = {}
        for view in ("gopher", "http", "gopherp+"):
            req, _ = reqs.render(view, b"/")
            try:
                os.unlink(cpath)
            except OSError:
                pass
            ref[view] = validate.normalize_ts(sp.request(req))
        stop = threading.Event()

        def buster():
            r = random.Random(11)
            while not stop.is_set():
                try:
                    k = r.random()
                    if k < 0.4:
                        open(cpath, "wb").close()                      # what a writer's open() does first
                    elif k < 0.7:
                        size = os.path.getsize(cpath)
                        os.truncate(cpath, r.choice([0, 1, size // 2, 4096, max(0, size - 1)]))
                    else:
                        os.unlink(cpath)
                except OSError:
                    pass
                time.sleep(r.choice([0.0005, 0.002, 0.004]))

        bt = threading.Thread(target=buster, daemon=True)
        bt.start()

        def one(i):
            view = ("gopher", "http", "gopherp+")[i % 3]
            req, _ = reqs.render(view, b"/")
            try:
                return view, sp.request(req, timeout=30), None
            except OSError as e:
                return view, None, type(e).__name__

        with ThreadPoolExecutor(max_workers=12) as ex:
            results = list(ex.map(one, range(nreq)))
        stop.set()
        bt.join()
        errors = 0
        for view, data, err in results:
            chk.count("real_server_racing_reads")
            if err is not None:
                errors += 1
                continue
            if validate.normalize_ts(data) != ref[view]:
                chk.witness("C11/real-server-reader-racing-writer:%s" % ("empty-reply" if not data else "wrong-listing"),
                            {"view": view, "reply": data[:200], "server_stderr": sp.stderr_text()[-300:]})
                return
        if errors > nreq // 10:
            chk.note_inconclusive("%d of %d racing requests failed on the client side" % (errors, nreq))
        chk.case(("real-server-race", nreq), {"requests": nreq, "client_errors": errors})
    finally:
        sp.stop()
        sp.cleanup()


def main() -> int:
    chk = Check("C11", "fault_enumeration")
    quick = chk.tier == "quick"
    if not quick and chk.args.shard is None:
        common.run_shards(chk, "vf.checks.c11", 8, timeout=3000)
    else:
        with Scratch("c11") as sc:
            plan = [(1, 2), (2, 5), (3, 11), (6, 23), (12, 41), (25, 97)] if quick else \
                [(n, 1) for n in (1, 2, 3, 5, 8)]
            shard = chk.args.shard or 0
            for i, (n, stride) in enumerate(plan):
                hl = [("umn", None), ("plain", driver.HANDLERS_PLAINDIR)][(i + shard) % 2]
                prefix_enumeration(chk, sc, i + 100 * shard, n + (shard if not quick else 0), stride, hl[1], hl[0],
                                   dirname=DIR_NAMES[(i + shard) % len(DIR_NAMES)])
            if quick or shard == 0:
                zip_cache_enumeration(chk, sc, 5 if quick else 1)
            hl = [("umn", None), ("plain", driver.HANDLERS_PLAINDIR)][shard % 2]
            writer_crash(chk, sc, 19 if quick else 1, hl[1], hl[0], n_entries=6 + (shard if not quick else 0))
            reader_writer_race(chk, sc, rounds=8 if quick else 20, per_round=150)
            if quick or shard < 4:
                real_process_race(chk, sc, 600 if quick else 3000)
    return chk.finish(
        rule="case = (cache file, cut position): the file the server wrote is replaced by its prefix of length k "
             "(every k for the smallest directories, a stride plus boundaries for larger ones; all k in the thorough "
             "tier), by zeros, or by a half-garbage file, and the next listing (protocol chosen round-robin) must be "
             "byte-identical to the uncached listing; same for the three files of the ZIP index cache; plus threads "
             "reading while others rewrite, with a pause inserted between truncate and dump (reads overlapping a "
             "write are counted); plus the writer itself dying after N bytes (a forked copy of the harness serves the "
             "rewriting request under RLIMIT_FSIZE=N and is killed by the kernel's SIGXFSZ; or the write fails with "
             "ENOSPC after N bytes) while an expired cache of the directory's previous contents is on disk",
        assumptions=["pauses between truncation and completion of a cache write, and ENOSPC after N bytes, are inserted by "
                     "shadowing the name `open` inside pygopherd.handlers.base with a delegating proxy for the cache file "
                     "(harness-side, no source change; counters show it was reached); the kernel-made variants need none"],
        exhaustive=False)


if __name__ == "__main__":
    common.main_wrapper(main)
