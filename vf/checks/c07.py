"""C07 -- a listing is exactly the visible entries, once each, in a stable order."""
from __future__ import annotations

import itertools
import os
import re
import typing

from vf import common, driver, reqs, validate, crawl
from vf.common import Check, Scratch
from vf.trees import Tree

UMN_NOMAP = "[UMN.UMNDirHandler, html.HTMLFileTitleHandler, file.FileHandler]"
PLAIN_NOMAP = "[dir.DirHandler, html.HTMLFileTitleHandler, file.FileHandler]"

# names on both sides of every alternative of the shipped ignore pattern
PATTERN_NAMES = [
    ".cap", "xcap", "recap", "cap", "lost+found", "lost+founds", "lostfound", "lib", "libs", "alib", "bin", "bin2",
    "etc", "etcetera", "dev", "devel", "notes~", "no~tes", "~", ".cachefile", "cache", ".forward", ".message",
    ".hushlogin", ".kermrc", ".notar", ".where", "veronica.ctl", "veronicaXctl", "veronica.ctl2", "robots.txt",
    "robots.txt.bak", "arobots.txt", "nohup.out", "nohup.out2", "gophermap", "gophermap2", "x.gophermap",
    "a.abstract", "a.abstracts", "a.keyboards", "a.keywords", "a.ask", "a.askew", "aask", "a.3d", "a.3dx", "a3d",
    ".names~", ".Links~", ".cache.old",
]
# dot-files the shipped pattern ignores: under the UMN handler they must not be read as link files either
IGNORED_DOTFILES = [".names~", ".Links~", ".cache.old", ".cachefile", ".forward", ".message", ".hushlogin", ".kermrc", ".notar", ".where"]
PLAIN_NAMES = ["alpha.txt", "Beta.txt", "gamma", "delta.html", "epsilon.html", "zeta.gif", "a", "A", "b c.txt",
               # names at and just below the file system's limit (a probe for '<name>.abstract' is longer than any name may be)
               "n" * 246, "m" * 247 + ".txt", "k" * 255, "j" * 250 + ".html",
               # the same visible text in composed and decomposed form, and compatibility characters: different names
               "cafe\u0301.txt", "A\u030angstro\u0308m", "\u212bngstr\u00f6m", "\ufb01le.txt", "file.txt", "\uff21.txt",
               "café.txt", "10", "9", "z.txt", "Z.txt", "_under", "-dash",
               # characters that mean something to a pattern, a shell or a path on another system, but not to this one's
               # file system: ordinary names (a lone backslash is not the doubled or dot-led one the selector filter refuses)
               "AC\\DC.txt", "back\\slash~", "a[1].txt", "what?.txt", "star*.txt", "c:drive.txt", "semi;colon", "pipe|name.txt",
               "100%.txt", "{brace}.txt", "(paren).txt", "$HOME.txt", "tick`s.txt", "quo\"te.txt", "tab-less name .txt"]
DOTFILES = [".hidden", ".x", ".profile"]
DOTDIRS = [".private", ".git", ".well-known"]
# names equal up to letter case: any case-folding sort key would let the enumeration order decide
CASE_GROUPS = [["README", "readme", "Readme"], ["Makefile", "makefile"], ["Docs.txt", "docs.txt", "DOCS.txt"], ["x.TXT", "x.txt"]]


def gen_dir(rng, n: int, allow_gophermap: bool) -> typing.Tuple[Tree, typing.Dict[str, str]]:
    """-> tree (relative to the directory) and name -> kind ('file'|'dir')"""
    t = Tree()
    kinds: typing.Dict[str, str] = {}
    pool = PATTERN_NAMES + PLAIN_NAMES + DOTFILES + DOTDIRS
    names = rng.sample(pool, min(n, len(pool)))
    if n >= 2 and rng.random() < 0.5:
        names = names[:max(0, n - 3)] + rng.choice(CASE_GROUPS)
    for nm in names:
        if nm == "gophermap" and not allow_gophermap:
            continue
        if nm in (".cap", "lib", "bin", "etc", "dev", "lost+found") or nm in DOTDIRS or (rng.random() < 0.2 and not nm.startswith(".")
                                                                      and "." not in nm):
            t.dir(nm)
            t.file(nm + "/inside.txt", "inside %s\n" % nm)
            kinds[nm] = "dir"
        elif nm.endswith(".html"):
            t.file(nm, "<html><title>%s</title></html>" % rng.choice(["Same Title", "Same Title", "T " + nm]))
            kinds[nm] = "file"
        else:
            t.file(nm, "content of %s\n" % nm)
            kinds[nm] = "file"
    return t, kinds


def hide_by_metadata(rng, t: Tree, kinds: typing.Dict[str, str]) -> typing.Set[str]:
    """Type=X in .names (Path=./n) or in .cap/n hides n (UMN only)."""
    hidden = set()
    cands = [n for n in kinds if not n.startswith(".") and kinds[n] == "file"]
    rng.shuffle(cands)
    blocks = []
    for n in cands[:rng.randrange(0, 3)]:
        if rng.random() < 0.5:
            blocks.append("Path=./%s\nType=X\n" % n)
        else:
            t.file(".cap/" + n, "Type=X\n")
            kinds.setdefault(".cap", "dir")
        hidden.add(n)
    dirs = [n for n in kinds if not n.startswith(".") and kinds[n] == "dir"]
    if dirs and rng.random() < 0.9:
        # a directory is naturally addressed with a trailing slash
        n = rng.choice(dirs)
        blocks.append("Path=./%s/\nType=X\n" % n)
        hidden.add(n)
    if dirs and cands:
        # a block about a file *inside a sub-directory* that is named like a file of this directory says nothing
        # about this directory's file (blocks are matched by full path, not by base name)
        d, n = rng.choice(dirs), rng.choice(cands)
        if n not in hidden:
            t.file(d + "/" + n, "namesake inside %s\n" % d)
            blocks.append("Path=./%s/%s\nType=X\n" % (d, n))
    for n in dirs:
        # .cap files speak about sub-directories as well as about files
        if n not in hidden and rng.random() < 0.8:
            if rng.random() < 0.5:
                t.file(".cap/" + n, "Type=%s\n" % rng.choice("X-"))
                hidden.add(n)
            else:
                t.file(".cap/" + n, "Name=Capped directory %s\nNumb=%d\n" % (n, rng.randrange(-2, 3)))
            kinds.setdefault(".cap", "dir")
    for n in cands[3:3 + rng.randrange(0, 3)]:
        # a .cap file that renames without hiding
        t.file(".cap/" + n, "Name=Capped %s\nNumb=%d\n" % (n, rng.randrange(-2, 3)))
        kinds.setdefault(".cap", "dir")
    if blocks:
        t.file(".names", "\n".join(blocks))
        kinds[".names"] = "file"
    return hidden


def several_link_files(rng, t: Tree, kinds: typing.Dict[str, str], ignored) -> None:
    """Two or three link files that speak about the same entries (UMN only): renames of
    one file from different link files, and new entries that tie on number and title."""
    cands = [n for n in kinds if not n.startswith(".") and kinds[n] == "file" and not ignored(n)]
    if not cands:
        return
    files = rng.sample([".names", ".Links", ".links2", ".zlinks"], rng.randrange(2, 4))
    for k, lf in enumerate(files):
        if lf in kinds or lf == ".names" and ".names" in t.nodes:
            continue
        n = rng.choice(cands)
        blocks = ["Path=./%s\nName=Renamed by %s\n" % (n, lf.strip("."))]
        if rng.random() < 0.7:
            blocks.append("Name=Tied Title\nType=0\nPath=/elsewhere/%d\nHost=other%d.example\nPort=70\n" % (k, k))
        if rng.random() < 0.5:
            blocks.append("Name=Numbered\nNumb=%d\nType=1\nPath=/n%d\nHost=h.example\nPort=70\n" % (rng.choice([1, 1, 2]), k))
        t.file(lf, "\n".join(blocks))
        kinds[lf] = "file"


class ListdirPermuter:
    def __init__(self):
        self.real = os.listdir
        self.target: typing.Optional[bytes] = None
        self.perm: typing.Optional[typing.Sequence[int]] = None
        self.hits = 0

    def __call__(self, path="."):
        res = self.real(path)
        p = os.fsencode(path) if not isinstance(path, bytes) else path
        if self.target is not None and p.rstrip(b"/") == self.target and self.perm is not None:
            base = sorted(res)
            if len(self.perm) == len(base):
                self.hits += 1
                return [base[i] for i in self.perm]
        return res


def run_dir(chk: Check, sc: Scratch, idx: int, handler_name: str, handlers: str, exhaustive_upto: int, nperm: int) -> None:
    rng = chk.subrng("dir", handler_name, idx)
    handlers_text = handlers or driver.make_config("/").get("handlers.HandlerMultiplexer", "handlers")
    umn = "UMN" in handlers_text
    n = rng.choice([0, 1, 2, 3, 4, 5, 5, 6, 8, 10, 12])
    sub, kinds = gen_dir(rng, n, allow_gophermap="gophermap.Buck" not in handlers_text)
    # (decided by the case number, not by chance: every other directory has metadata, every fourth keeps it behind links)
    coin = rng.random()
    hidden_meta = hide_by_metadata(rng, sub, kinds) if umn and (idx % 2 == 0 or coin < 0.25) else set()
    # (the last two: directories whose own path completes an unanchored alternative of the shipped pattern --
    # '\.ask', '/\.cache' -- so every child selector matches it: such a directory lists nothing)
    depth = rng.choice([b"", b"d", b"d/e", b"d", b"d/e", b"forms.asked/sub", b"x/.cache-2019"])
    patt0 = driver.make_config("/").get("handlers.dir.DirHandler", "ignorepatt")
    coin2 = rng.random()
    if umn and (idx % 4 == 0 or coin2 < 0.15):
        # metadata files that are symbolic links to regular files kept elsewhere in the site: same effect
        moved = 0
        for nm in sorted(sub.nodes):
            node = sub.nodes[nm]
            base = nm.rsplit(b"/", 1)[-1]
            if node["kind"] == "file" and (nm in (b".names", b".Links", b".links2", b".zlinks") or nm.startswith(b".cap/")) \
                    and rng.random() < 0.9:
                store = b"zz-meta/m%d" % moved
                sub.file(store, node["data"])
                del sub.nodes[nm]
                sub.symlink(nm, (b"../" if b"/" in nm else b"") + store)
                moved += 1
        if moved:
            kinds["zz-meta"] = "dir"
            chk.count("metadata_files_that_are_symlinks", moved)
    if umn:
        # ignored dot-files (editor backups of link files, .message, .forward ...) whose text happens to be
        # link-file stanzas: they hide nothing and add nothing
        victims = [x for x in kinds if not x.startswith(".") and not re.search(patt0, "/" + x) and x not in hidden_meta]
        for k, nm in enumerate(sorted(x for x in kinds if x in IGNORED_DOTFILES and kinds[x] == "file")):
            text = "Name=From an ignored file %d\nType=0\nPath=/ignored-link/%d\nHost=+\nPort=+\n" % (k, k)
            if victims:
                text += "\nPath=./%s\nType=X\n\nPath=./%s\nName=Renamed by an ignored file\n" % (rng.choice(victims), rng.choice(victims))
            sub.file(nm, text)
            chk.count("ignored_dotfiles_holding_stanzas")
    if umn and rng.random() < 0.4:
        several_link_files(rng, sub, kinds, lambda n: re.search(patt0, ("/" + depth.decode() + "/" + n).replace("//", "/"))
                           or n in hidden_meta)
    t = Tree()
    if depth:
        t.subtree(depth, sub)
    else:
        t = sub
    root = sc.sub("r-%s-%d" % (handler_name, idx))
    t.materialize(root)
    site = driver.Site(root, handlers=handlers)
    selbase = (b"/" + depth) if depth else b""
    ignorepatt = site.config.get("handlers.dir.DirHandler", "ignorepatt")
    permuter = ListdirPermuter()
    os.listdir = permuter
    try:
        names = sorted(kinds)
        must, mustnot, free = set(), set(), set()
        for nm in names:
            full = (selbase.decode() + "/" + nm)
            ignored = re.search(ignorepatt, full) is not None
            dot = nm.startswith(".")
            if ignored or nm in hidden_meta:
                mustnot.add(nm)
            elif dot:
                (mustnot if umn else free).add(nm)   # plain DirHandler: documents promise only the pattern
            else:
                must.add(nm)
        req, _ = reqs.render("gopher", selbase or b"/")
        ref = site.request(req)
        v = validate.validate(ref, req)
        sample = {"handler": handler_name, "dir": selbase, "names": names, "hidden_by_metadata": sorted(hidden_meta)}
        if not v.ok or v.klass != "menu":
            chk.witness("C07/listing-failed", dict(sample, reply=ref.data[:200], log=ref.log[:3]))
            return
        ents = [e for e in crawl.from_gopher_lines(v.parsed) if e.local and not e.selector.startswith(b"/elsewhere/")]
        listed = []
        for e in ents:
            pre = selbase + b"/"
            if e.selector.startswith(pre) and b"/" not in e.selector[len(pre):]:
                listed.append(e.selector[len(pre):].decode("utf-8", "surrogateescape"))
            else:
                chk.witness("C07/foreign-entry-in-listing", dict(sample, entry=repr(e)))
                return
        dup = sorted({x for x in listed if listed.count(x) > 1})
        if dup:
            chk.witness("C07/duplicate-entry", dict(sample, duplicates=dup))
            return
        missing = sorted(must - set(listed))
        extra = sorted(set(listed) & mustnot)
        unknown = sorted(set(listed) - must - mustnot - free)
        if missing:
            chk.witness("C07/visible-entry-missing", dict(sample, missing=missing, listed=listed))
            return
        if extra:
            why = "dotfile" if all(x.startswith(".") for x in extra) else ("metadata" if set(extra) & hidden_meta else "pattern")
            chk.witness("C07/hidden-entry-listed:%s" % why, dict(sample, extra=extra, listed=listed))
            return
        if unknown:
            chk.witness("C07/entry-not-in-directory", dict(sample, unknown=unknown))
            return
        # order independence under permutations of the OS enumeration
        fsdir = os.path.join(os.fsencode(root), depth).rstrip(b"/")
        real_n = len(permuter.real(fsdir))
        permuter.target = fsdir
        if real_n <= exhaustive_upto:
            perms: typing.Iterable = itertools.permutations(range(real_n))
            exhaustive = True
        else:
            perms = [tuple(rng.sample(range(real_n), real_n)) for _ in range(nperm)] + [tuple(reversed(range(real_n)))]
            exhaustive = False
        base_bytes = None
        nper = 0
        for perm in perms:
            permuter.perm = perm
            r = site.request(req)
            nper += 1
            b = validate.normalize_ts(r.data)
            if base_bytes is None:
                base_bytes = b
            elif b != base_bytes:
                nlinks = sum(1 for x in kinds if x.startswith(".") and kinds[x] == "file")
                chk.witness("C07/order-depends-on-enumeration:%s" % ("several-link-files" if nlinks > 1 else "plain"),
                            dict(sample, perm=perm, first=base_bytes[:300], other=b[:300]))
                return
        permuter.perm = None
        chk.count("permuted_listings", nper)
        chk.count("directories_exhaustively_permuted" if exhaustive else "directories_sampled_permutations")
        if permuter.hits < nper:
            chk.note_inconclusive("listdir interposition not reached (%d/%d)" % (permuter.hits, nper))
        # kept-out entries stay retrievable by exact selector
        for nm in sorted(mustnot | free):
            if nm == ".cap" and not umn:
                pass
            rq, _ = reqs.render("gopher", selbase + b"/" + nm.encode("utf-8", "surrogateescape"))
            r = site.request(rq)
            vv = validate.validate(r, rq)
            if not vv.ok or vv.klass == "error":
                chk.witness("C07/hidden-entry-not-retrievable:%s" % kinds[nm], dict(sample, name=nm, reply=r.data[:160]))
                return
            chk.count("hidden_entries_retrieved")
        sig = (handler_name, len(names), bool(hidden_meta), tuple(sorted(x for x in mustnot))[:6], bool(depth))
        chk.case(sig, dict(sample, listed=listed, permutations=nper) if idx % 9 == 0 else None)
    finally:
        os.listdir = permuter.real
        site.close()


def main() -> int:
    chk = Check("C07", "exploration")
    quick = chk.tier == "quick"
    if not quick and chk.args.shard is None:
        common.run_shards(chk, "vf.checks.c07", 16, timeout=2400)
    else:
        ndirs = 40 if quick else 150
        with Scratch("c07") as sc:
            for hn, hl in (("umn-shipped", None), ("plain", driver.HANDLERS_PLAINDIR), ("umn-nomap", UMN_NOMAP),
                           ("plain-nomap", PLAIN_NOMAP)):
                for i in range(ndirs if hn in ("umn-shipped", "plain") else ndirs // 3):
                    run_dir(chk, sc, i, hn, hl, exhaustive_upto=5 if quick else 6, nperm=40 if quick else 60)
    return chk.finish(
        rule="case = one generated directory (names on both sides of every alternative of the shipped ignore "
             "pattern, dot-files, sub-directories, Type=X metadata) listed through the real handler chain: listed "
             "set vs. reference visibility (pattern searched in selectorbase/name; UMN: no dot-files, no Type=X), no "
             "duplicates, byte-identical listing under permutations of os.listdir (all permutations for small "
             "directories), every kept-out name retrievable by exact selector. distinct = (handler, #names, metadata "
             "hiding?, hidden names, depth)",
        assumptions=["plain DirHandler: dot-files not matched by the pattern may or may not be listed (documents "
                     "promise only the pattern)", "real kernels' enumeration orders are replaced by permutations"])


if __name__ == "__main__":
    common.main_wrapper(main)
