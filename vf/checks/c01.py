"""C01 -- nothing outside the document root is ever read, listed, run or revealed."""
from __future__ import annotations

import os
import re
import shutil
import sys
import typing
import urllib.parse

from vf import REPO, VERIF, audit, common, driver, reqs, sites, trees, validate
from vf.common import Check, Scratch
from vf.trees import Tree

CLIMB_TOKENS = [b"./", b"..", b"//", b".\\", b"\\\\", b"\x00"]


def allowed_prefixes() -> typing.List[str]:
    out = {sys.prefix, sys.base_prefix, sys.exec_prefix, REPO, VERIF, "/proc/self", "/dev/null", "/dev/urandom"}
    for p in sys.path:
        if p:
            out.add(os.path.abspath(p))
    return sorted(out)


def helpers() -> typing.List[str]:
    """Configured helper programs (decompressors) -- running them is the documented job of
    the decompressing handler."""
    return list(eval(driver.decompressors_option()).values())


def decoded_selector(view: str, raw: bytes, prequoted: bool) -> bytes:
    """The selector the request denotes, by the protocol's documents (URL protocols
    percent-decode once)."""
    fam = reqs.VIEWS[view][0]
    if fam in ("gopher", "gopherp"):
        return raw.split(b"\t")[0].strip()
    if prequoted:
        return urllib.parse.unquote_to_bytes(raw.split(b"?")[0])
    return raw


def is_climbing(sel: bytes) -> bool:
    """On the selector as the documents normalise it: a leading slash is added and one
    trailing slash dropped before any handler sees it."""
    if sel.endswith(b"/"):
        sel = sel[:-1]
    if not sel.startswith(b"/"):
        sel = b"/" + sel
    return any(t in sel for t in CLIMB_TOKENS)


def is_url_form(sel: bytes) -> bool:
    return re.match(rb"/?URL:.+://", sel) is not None


def hostile_selectors(rng, model: sites.SiteModel, full: bool, n: int, outside_abs: bytes = b"/nonexistent"
                      ) -> typing.List[typing.Tuple[bytes, bool, str]]:
    """(raw selector as sent, prequoted?, class)"""
    objs = model.docs(full) + model.menus(full)
    out = []
    # shell syntax in the virtual argument of every script-like object, naming an absolute path outside the
    # root (harmless while arguments reach the script as one argv element)
    secret = outside_abs + b"/outside-secret.txt"
    for o in objs:
        if "exec" in o.tags or "pyg" in o.tags:
            for sep in (b"?", b"|"):
                for payload in (b"x;cat " + secret, b"$(cat " + secret + b")", b"`cat " + secret + b"`", b"x&&cat " + secret,
                                b"x|cat " + secret, b"x\tcat<" + secret, b"-f " + secret, b"x;" + outside_abs + b"/evil.pyg"):
                    out.append((o.selector + sep + payload, False, "shell-syntax-in-argument"))
                # ... and arguments that climb (a script that takes its argument for a file name would follow them)
                for payload in (b"../../outside-secret.txt", b"../outside-secret.txt", b"x/../../../outside-secret.txt", b"..", b"../../SIBLING/secret.txt",
                                b"pages/../../../outside-secret.txt", b"..\\..\\outside-secret.txt", b".//..//outside-secret.txt"):
                    out.append((o.selector + sep + payload, False, "climbing-virtual-argument"))
    outside_targets = [b"etc/passwd", b"outside-secret.txt", b"SIBLING/secret.txt", b"evil.pyg", b"outside.mbox",
                       # names that handlers claim by their suffix (decompression, archives, templates, maps)
                       b"outside-secret.txt.gz", b"SIBLING/secret.txt.gz", b"outside.zip", b"outside.zip/inner.txt", b"outside.html.tal",
                       b"outside.gophermap", b"outside-secret.txt.bz2"]
    # tails that would continue the root's own path into a sibling whose name begins with the root's name
    # ('<root>-x', '<root>x'): reachable only if some layer drops the leading '/' (or the first characters) of a selector
    for tail in (b"-x/secret.txt", b"x/secret.txt", b"-x", b"x/small.txt"):
        for lead in (b"", b"/", b"/0", b"/1", b"/a", b"/-", b"//", b"/./", b"/0/", b"/URL:"):
            out.append((lead + tail, False, "root-prefix-sibling"))
    for _ in range(n):
        o = rng.choice(objs)
        k = rng.random()
        if k < 0.35:
            sel = reqs.mutate_traversal(rng, o.selector)
            out.append((sel, False, "traversal"))
        elif k < 0.55:
            # climb from a real directory / archive / virtual suffix to something outside
            depth = o.selector.count(b"/") + rng.randrange(0, 3)
            sep = rng.choice([b"../", b"..\\", b"..//", b"./../", b"%2e%2e/"])
            sel = o.selector + b"/" + sep * depth + rng.choice(outside_targets)
            out.append((sel, False, "climb-from-object"))
        elif k < 0.62:
            # compatibility look-alikes of '.', '..' and '/': harmless unless something normalises them
            # after the filter has looked at the selector
            dd = rng.choice(["\u2025", "\uff0e\uff0e", "\u2024\u2024", ".\uff0e", "\u2025\u2024"]).encode("utf-8")
            sl = rng.choice([b"/", "\uff0f".encode(), "\u2215".encode(), "\u2044".encode(), b"/"])
            depth = o.selector.count(b"/") + rng.randrange(0, 3)
            base = o.selector if rng.random() < 0.6 else b""
            sel = base + b"/" + (dd + sl) * depth + rng.choice(outside_targets)
            out.append((sel, False, "unicode-lookalike"))
        elif k < 0.66:
            # a climb glued to a virtual-argument separator: the filter sees the whole selector, the
            # virtual handlers only the part before the separator
            up = rng.choice([b"/..", b"/../..", o.selector + b"/..", b"/..", b"/../outside.mbox", b"/../evil.pyg", b"/.."])
            tail = rng.choice([b"|/MAILDIR-MESSAGE/1", b"|/MBOX-MESSAGE/1", b"?/MAILDIR-MESSAGE/1", b"?x", b"|x y", b"|/MAILDIR-MESSAGE/2"])
            out.append((up + tail, False, "climb-with-virtual-argument"))
        elif k < 0.7:
            tail = rng.choice([b"|/MBOX-MESSAGE/1", b"?../../x", b"|../../etc/passwd", b"|/MAILDIR-MESSAGE/../1", b"?/etc/passwd"])
            out.append((o.selector + tail, False, "virtual-argument"))
        elif k < 0.85:
            sel = reqs.mutate_traversal(rng, o.selector)
            layers = rng.randrange(1, 4)
            enc = b"/".join(reqs.pct(p, layers) if (p and rng.random() < 0.7) else p for p in sel.split(b"/"))
            enc = enc.replace(b"%2f", b"/") if rng.random() < 0.5 else enc
            out.append((enc, True, "percent-encoded-x%d" % layers))
        elif k < 0.93:
            out.append((rng.choice([b"URL:http://example.org/../../etc/passwd", b"/URL:file:///etc/passwd", b"URL:x://../..",
                                    b"/URL:http://h/%2e%2e/", b"URL:http://h//double"]), False, "url-form"))
        else:
            out.append((rng.choice([b"/..", b"..", b"/.", b"/../", b"//", b"\\..\\..", b"/%00", b"/\x00/etc/passwd",
                                    b"/" + b"../" * 12 + b"etc/passwd", b"/....//....//etc/passwd", b"/.%00./",
                                    b"/%c0%ae%c0%ae/", b"/%252e%252e/"]), rng.random() < 0.5, "bare-climb"))
    # every compatibility look-alike of '..' with every look-alike of '/', at the depths that would reach the outside
    # targets if something normalised them (systematic: not left to the draw above)
    for dd in ("\u2025", "\uff0e\uff0e", "\u2024\u2024", ".\uff0e", "\u2025\u2024"):
        for sl in ("/", "\uff0f", "\u2215"):
            for depth in (1, 2):
                out.append((b"/" + (dd + sl).encode("utf-8") * depth + b"outside-secret.txt", False, "unicode-lookalike"))
    # every outside target (each is named so that some handler would claim it by its suffix) behind the plainest climbs
    for tgt in outside_targets:
        for pre in (b"/../", b"/../../", b"/umn/../../"):
            out.append((pre + tgt, False, "climb-to-each-outside-target"))
    return out


def outside_world(sc: Scratch, root: str, model: sites.SiteModel, which: str) -> str:
    """Populate the world outside the root; returns the working directory to use."""
    parent = os.path.dirname(root)
    cwd = os.path.join(parent, "cwd-" + which)
    os.makedirs(cwd, exist_ok=True)
    if which == "A":
        return cwd
    marker = b"OUTSIDE-THE-ROOT-" + which.encode()
    # prefix siblings of the root (the path is root + selector, a plain concatenation)
    for sib in (root + "-x", root + "x", os.path.join(parent, "SIBLING")):
        t = Tree()
        t.file("secret.txt", marker + b" sibling secret\n")
        t.file("small.txt", marker + b"\n")
        t.materialize(sib)
    with open(os.path.join(parent, "outside-secret.txt"), "wb") as fp:
        fp.write(marker + b" parent secret\n" * (3 if which == "B" else 700))
    for nm, data in (("outside-secret.txt.gz", trees.gz(marker + b" gz secret\n")), ("outside-secret.txt.bz2", trees.bz(marker + b" bz2 secret\n")),
                     ("SIBLING/secret.txt.gz", trees.gz(marker + b" sibling gz secret\n")),
                     ("outside.zip", Tree().file("inner.txt", marker + b" zipped secret\n").to_zip()),
                     ("outside.html.tal", b"<html><body><p tal:content=\"string:" + marker + b" template\">x</p></body></html>"),
                     ("outside.gophermap", b"i" + marker + b" map\tfake\t(NULL)\t0\n0x\t/x\n")):
        with open(os.path.join(parent, nm), "wb") as fp:
            fp.write(data)
    with open(os.path.join(parent, "outside-secret.txt.abstract"), "wb") as fp:
        fp.write(marker + b" abstract of the parent secret\n")
    with open(os.path.join(parent, "SIBLING", ".abstract"), "wb") as fp:
        fp.write(marker + b" abstract of the sibling directory\n")
    # the directory that contains the root is itself a Maildir and holds an executable PYG module
    # and an mbox (what '/..' plus a virtual-argument suffix would name)
    trees.maildir_tree(["OUTSIDE SUBJECT parent maildir " + which], where="cur").materialize(parent)
    with open(os.path.join(parent, "evil.pyg"), "wb") as fp:
        fp.write(b"open(%r, 'w').write('outside pyg ran')\nraise SystemError('outside pyg imported')\n"
                 % os.path.join(parent, "PYG-RAN").encode())
    os.chmod(os.path.join(parent, "evil.pyg"), 0o755)
    with open(os.path.join(parent, "outside.mbox"), "wb") as fp:
        fp.write(trees.make_mbox(["OUTSIDE SUBJECT parent mbox " + which], sc.path))
    # the working directory holds look-alikes of every path tail a request can name
    t = Tree()
    for p, n in model.tree.nodes.items():
        if n["kind"] == "file":
            parts = p.split(b"/")
            for i in range(len(parts)):
                tail = b"/".join(parts[i:])
                if tail not in t.nodes and not any(tail.startswith(x + b"/") or x.startswith(tail + b"/") for x in t.nodes):
                    data = marker + b" lookalike of " + p + b"\n"
                    if p.endswith(b".mbox"):
                        data = trees.make_mbox(["OUTSIDE SUBJECT " + which], sc.path)
                    elif p.endswith(b".zip"):
                        data = Tree().file("inner.txt", marker).file("sub/deep.txt", marker).to_zip()
                    elif p.endswith((b".sh", b".pyg")):
                        data = b"#!/bin/sh\necho " + marker + b"\n"
                    try:
                        t.file(tail, data, mode=n["mode"])
                    except Exception:
                        pass
    for extra in (b"inner.txt", b"sub/deep.txt", b"sub/page.html", b"etc/passwd", b".cap/one.txt", b"gophermap", b".names"):
        if extra not in t.nodes and not any(extra.startswith(x + b"/") or x.startswith(extra + b"/") for x in t.nodes):
            t.file(extra, marker + b" extra\n")
    for d in (b"md-out/cur", b"md-out/new", b"md-out/tmp"):
        t.dir(d)
    t.materialize(cwd)
    return cwd


def extend_model(model: sites.SiteModel, base: str, sc: Scratch) -> None:
    model.tree.file("page.html.tal", b"<html><body><p tal:content=\"selector\">x</p></body></html>")
    model.add(b"/page.html.tal", "doc", None, needs_full=True, tags=["tal"])
    # content that itself points upwards (no symlink involved): gophermap and link-file entries whose
    # selectors climb; listing these directories must neither inspect nor describe anything outside
    model.tree.file("climbmap/gophermap", "Climbing links\n0Up secret\t../../outside-secret.txt\n0Abs up\t/../outside-secret.txt\n"
                    "1Sibling\t../../SIBLING\n0Through self\t/climbmap/../../outside-secret.txt\n0Backslash\t..\\..\\outside-secret.txt\n"
                    "0Dot slash\t./../../outside-secret.txt\n1Parent maildir\t/..\n0Fine\tinside.txt\n"
                    # no selector field: the display string is the selector
                    "0../../outside-secret.txt\t\n1../../SIBLING\t\n0/../outside-secret.txt\t\n0../../outside-secret.txt\n"
                    "0..\\..\\outside-secret.txt\t\t\t\n"
                    # selectors that spell an absolute path of the host behind a doubled (or tripled) slash
                    "0Host path\t/%(b)s/outside-secret.txt\n1Host dir\t/%(b)s/SIBLING\n0Host path 3\t//%(b)s/outside-secret.txt\n"
                    "0%(b)s/outside-secret.txt\t\n" % {"b": base})
    # templates whose path expressions climb (the loaders a template is given walk the site's directories)
    model.tree.file("tpl/climb.html.tal", b"""<html><body>
<ul><li tal:repeat="n root/../getchildrennames | nothing" tal:content="n">x</li></ul>
<ul><li tal:repeat="n dir/../../SIBLING/getchildrennames | nothing" tal:content="n">x</li></ul>
<ul><li tal:repeat="n rroot/../SIBLING/getchildrennames | nothing" tal:content="n">x</li></ul>
<div metal:use-macro="root/../outside/macros/m | default">no macro</div>
<p tal:content="exists:root/../SIBLING">e</p><p tal:content="exists:dir/../../outside-secret.txt">e</p>
<p tal:define="up string:.." tal:content="exists:root/?up/SIBLING">e</p>
<p tal:content="root/../getpath | string:none">p</p>
<p tal:content="structure root/../outside | nothing">included</p>
</body></html>""")
    model.add(b"/tpl/climb.html.tal", "doc", None, needs_full=True, tags=["tal", "climbing-content"])
    model.tree.file("climbmap/inside.txt", "inside\n")
    model.add(b"/climbmap", "menu", tags=["dir", "climbing-content"])
    model.tree.file("climblinks/.Links", "Name=Up\nType=0\nPath=../../outside-secret.txt\n\nName=Up2\nType=0\nPath=./../../outside-secret.txt\n\n"
                    "Name=Abs\nType=0\nPath=/../outside-secret.txt\nHost=+\nPort=+\n\nName=Sib\nType=1\nPath=~/../../SIBLING\n\n"
                    "Name=Host path\nType=0\nPath=/%(b)s/outside-secret.txt\nHost=+\nPort=+\n\nName=Host dir\nType=1\nPath=/%(b)s/SIBLING\n"
                    % {"b": base})
    model.tree.file("climblinks/real.txt", "real\n")
    # an archive in an archive, with a member named like the inner archive's index cache beside it
    inner = Tree().file("in.txt", "inner member\n").file("sub/deep.txt", "deep\n")
    outer = Tree().file("D/inner.zip", inner.to_zip(date_time=(2020, 1, 1, 0, 0, 0)))
    outer.file("D/.cache.pygopherd.zip3.inner.zip", "not a dbm file\n").file("D/.cache.pygopherd.zip3.inner.zip.db", "nor this\n")
    model.tree.file("nest.zip", outer.to_zip(date_time=(2031, 1, 1, 0, 0, 0)))
    model.add(b"/nest.zip/D/inner.zip", "menu", needs_full=True, tags=["zip", "nested"])
    model.add(b"/nest.zip/D/inner.zip/sub/deep.txt", "doc", None, needs_full=True, tags=["zip", "nested"])
    # a script that shows the page its argument names (relative to its own directory)
    model.tree.file("viewer.sh", b'#!/bin/sh\n# shell built-ins only: nothing but the interpreter is executed\n'
                    b'[ -f "${0%/*}/pages/$1" ] || exit 0\nwhile IFS= read -r line; do echo "$line"; done < "${0%/*}/pages/$1"\n', mode=0o755)
    model.tree.file("pages/hello.txt", "a page\n")
    model.add(b"/viewer.sh", "doc", None, needs_full=True, tags=["exec", "viewer"])
    # an executable the kernel cannot run by itself (no #! line)
    model.tree.file("noshebang", "echo hello $1\n", mode=0o755)
    model.add(b"/noshebang", "doc", None, needs_full=True, tags=["exec", "noshebang"])
    # content whose selectors spell absolute paths that exist outside the root (a selector used as a path
    # without the root in front would name the outside object)
    mirror = os.fsencode(base).strip(b"/")
    model.tree.file(mirror + b"/outside-secret.txt", "INSIDE document whose selector mirrors an outside path\n")
    model.add(b"/" + mirror + b"/outside-secret.txt", "doc", None, tags=["mirror"])
    model.tree.file(mirror + b"/SIBLING/inside.txt", "inside the mirrored sibling\n")
    model.add(b"/" + mirror + b"/SIBLING", "menu", tags=["dir", "mirror"])
    model.tree.file(mirror + b"/outside.mbox", trees.make_mbox(["INSIDE SUBJECT mirror"], sc.path))
    model.add(b"/" + mirror + b"/outside.mbox", "menu", tags=["mail", "mirror"])
    model.add(b"/climblinks", "menu", tags=["dir", "climbing-content"])


def run_site(chk: Check, sc: Scratch, idx: int, nhostile: int) -> None:
    rng = chk.subrng("site", idx)
    base = sc.sub("w%d" % idx)
    root = os.path.join(base, "root")
    model = sites.gen_site(rng, sc.path, nfiles=8)
    extend_model(model, base, sc)
    model.tree.materialize(root)
    allowed = allowed_prefixes()
    helper_list = helpers()
    home = os.getcwd()
    try:
        for hl_name, hl in (("default", None), ("full", driver.HANDLERS_FULL_REWRITE)):
            full = hl is not None
            # the request list is fixed per (site, handler list) and replayed in every world
            requests: typing.List[typing.Tuple[str, bytes, bool, str, bytes]] = []
            for o in model.objs:
                if o.needs_full and not full:
                    continue
                for view in (reqs.LISTING_VIEWS if o.kind == "menu" else ["gopher", "gopherp+", "http", "wap", "gemini", "spartan", "gophers"]):
                    if reqs.VIEWS[view][0] in ("gopher", "gopherp") and reqs.gopher_ambiguous(o.selector):
                        continue
                    q = b"needle" if "exec" in o.tags or "pyg" in o.tags else None
                    requests.append(("object", *reqs.render(view, o.selector, q), view, o.selector))
                if full and o.kind == "doc" and rng.random() < 0.3:
                    requests.append(("type-prefixed", *reqs.render("gopher", b"/0" + o.selector), "gopher", b"/0" + o.selector))
            for raw, preq, cls in hostile_selectors(rng, model, full, nhostile, os.fsencode(base)):
                view = rng.choice(list(reqs.VIEWS))
                if preq and reqs.VIEWS[view][0] in ("gopher", "gopherp"):
                    view = rng.choice(["http", "https", "wap", "gemini", "spartan"])
                if reqs.VIEWS[view][0] not in ("gopher", "gopherp") and not raw.startswith(b"/"):
                    raw = b"/" + raw      # in a URL, a path without a leading slash would merge into the authority
                try:
                    data, tls = reqs.render(view, raw, prequoted=preq)
                except Exception:
                    continue
                requests.append((cls, data, tls, view, decoded_selector(view, raw, preq)))
            for _ in range(40):
                requests.append(("random-line", reqs.random_line(rng), rng.random() < 0.3, "gopher", b""))
            replies: typing.Dict[str, typing.List[bytes]] = {}
            for world in ("A", "B", "C"):
                cwd = outside_world(sc, root, model, world) if world != "C" else root
                site = driver.Site(root, handlers=hl)
                os.chdir(cwd)
                outside_before = snapshot_outside(base, root)
                try:
                    out = []
                    for cls, data, tls, view, dsel in requests:
                        driver.clean_server_files(root)
                        audit.RECORDER.start()
                        r = site.request(data, tls=tls)
                        evs = audit.RECORDER.stop()
                        chk.count("requests")
                        chk.count("audit_events", len(evs))
                        out.append(validate.normalize_ts(r.data))
                        sample = {"class": cls, "world": world, "handlers": hl_name, "request": data[:200], "decoded_selector": dsel[:120],
                                  "reply": r.data[:160], "log": r.log[:2]}
                        probes: list = []
                        bad = audit.classify_outside(evs, root, allowed, allowed_exact=helper_list + ["/bin/sh", "/usr/bin/sh", "/bin/dash"],
                                                     probes=probes)
                        if probes:
                            chk.count("metadata_probes_outside_root_not_a_verdict", len(probes))
                        bad = [e for e in bad if not (e.name == "subprocess.Popen" and e.detail and e.detail.get("argv", [""])[0] in helper_list)]
                        if bad:
                            e0 = bad[0]
                            where = "working-directory" if any(audit.under(p, cwd) for p in e0.paths) else "elsewhere"
                            chk.witness("C01/outside-access:%s:%s:%s" % (e0.name, where, cls.split("-x")[0]),
                                        dict(sample, events=[repr(e) for e in bad[:4]]))
                            continue
                        if b"OUTSIDE-THE-ROOT" in r.data or b"OUTSIDE SUBJECT" in r.data or b"root:x:0:0" in r.data:
                            chk.witness("C01/outside-content-revealed:%s" % cls.split("-x")[0], sample)
                            continue
                        # climbing requests are answered as not-found
                        if cls not in ("object", "random-line", "type-prefixed") and is_climbing(dsel):
                            v = validate.validate(r, data, head=data.startswith(b"HEAD "))
                            if is_url_form(dsel):
                                if any(e.name in ("open", "os.listdir", "os.scandir", "subprocess.Popen") and
                                       any(audit.under(p, root) for p in e.paths) for e in evs):
                                    chk.witness("C01/url-form-touched-the-file-system", sample)
                                    continue
                            elif r.protocol in ("GopherProtocol", "SecureGopherProtocol", "GopherPlusProtocol", "SecureGopherPlusProtocol",
                                                "HTTPProtocol", "HTTPSProtocol", "WAPProtocol", "GeminiProtocol", "SpartanProtocol") \
                                    and not (v.ok and v.klass in ("error", "redirect", "prompt")):
                                if r.escaped or not r.data:
                                    chk.witness("C01/climbing-request-got-no-reply:%s" % cls.split("-x")[0], dict(sample, escaped=r.escaped[:1]))
                                else:
                                    chk.witness("C01/climbing-request-not-refused:%s" % cls.split("-x")[0], dict(sample, klass=v.klass, reason=v.reason))
                                continue
                            chk.count("climbing_requests_refused")
                        chk.case((cls.split("-x")[0], world, hl_name, r.protocol, (r.protocol_handler() or (0, None))[1]),
                                 sample if chk.evaluations % 977 == 0 else None)
                    replies[world] = out
                finally:
                    os.chdir(home)
                    site.close()
                after = snapshot_outside(base, root)
                if after != outside_before:
                    diff = sorted(k for k in set(after) | set(outside_before) if after.get(k) != outside_before.get(k))[:6]
                    chk.witness("C01/files-changed-outside-the-root", {"world": world, "handlers": hl_name, "changed": diff})
            # responses must be byte-identical whatever exists outside the root / whatever the cwd
            for world in ("B", "C"):
                for i, (a, b) in enumerate(zip(replies.get("A", []), replies.get(world, []))):
                    if a != b:
                        cls, data = requests[i][0], requests[i][1]
                        chk.witness("C01/reply-depends-on-outside-world:%s:%s" % ("cwd-inside-root" if world == "C" else "outside-populated",
                                                                                  cls.split("-x")[0]),
                                    {"request": data[:200], "handlers": hl_name, "world_A": a[:200], "world_" + world: b[:200]})
                        break
                else:
                    chk.count("world_pairs_identical:" + world, len(replies.get(world, [])))
    finally:
        os.chdir(home)
        shutil.rmtree(base, ignore_errors=True)


_PATH_RE = re.compile(r'"((?:[^"\\]|\\.)*)"')


def _strace_paths(ev) -> typing.List[str]:
    """Path arguments of a file-related syscall as strace printed them (octal escapes decoded)."""
    out = []
    for m in _PATH_RE.finditer(ev.args):
        raw = m.group(1)
        try:
            out.append(raw.encode("latin-1").decode("unicode_escape").encode("latin-1").decode("utf-8", "surrogateescape"))
        except Exception:
            out.append(raw)
    if ev.name in ("execve", "execveat"):
        return out[:1]
    if ev.name in ("rename", "renameat", "renameat2", "link", "linkat", "symlink", "symlinkat"):
        return out[:2]
    return out[:1]


def strace_leg(chk: Check, sc: Scratch, nhostile: int) -> None:
    """M-SYS: the same question asked of the kernel instead of CPython.  The real
    bin/pygopherd runs under `strace -f -e trace=%file,...` with its working directory
    in a populated outside world; every path-carrying system call issued by the server
    (and its worker threads) while serving must name a path inside the root or part of the
    server's own installation.  Helper processes (decompressors, script interpreters) are
    recognised by their execve and attributed to the helper."""
    from vf import spdriver
    ok, why = spdriver.strace_works()
    if not ok:
        chk.count("strace_unavailable")
        return
    rng = chk.subrng("strace")
    base = sc.sub("sys")
    root = os.path.join(base, "root")
    model = sites.gen_site(rng, sc.path, nfiles=8)
    extend_model(model, base, sc)
    model.tree.materialize(root)
    cwd = outside_world(sc, root, model, "B")
    overrides = {("handlers.HandlerMultiplexer", "handlers"): driver.HANDLERS_FULL,
                 ("handlers.ZIP.ZIPHandler", "enabled"): "true",
                 ("handlers.file.CompressedFileHandler", "decompressors"): driver.decompressors_option()}
    sp = spdriver.ServerProcess(conf_overrides=overrides, root=root, servertype="ThreadingTCPServer", tls=True, cwd=cwd,
                                strace_expr="%file,execve,chdir,fchdir,chroot", workdir=os.path.join(base, "wd"), name="c01",
                                strace_opts=["-s", "4096"])
    sp.start()
    try:
        if not sp.wait_ready(40):
            chk.note_inconclusive("strace'd server did not become ready")
            return
        sp.request(b"/__VF_SERVING_STARTS_HERE__\r\n")
        requests = []
        for o in model.objs:
            for view in ("gopher", "gopherp$" if o.kind == "menu" else "gopherp+", "http", "gemini", "spartan"):
                if reqs.VIEWS[view][0] in ("gopher", "gopherp") and reqs.gopher_ambiguous(o.selector):
                    continue
                requests.append(reqs.render(view, o.selector, b"needle" if "exec" in o.tags else None))
        for raw, preq, cls in hostile_selectors(rng, model, True, nhostile, os.fsencode(base)):
            view = rng.choice(["gopher", "gopherp+", "http", "wap", "gemini", "spartan", "gophers", "https"])
            if preq and reqs.VIEWS[view][0] in ("gopher", "gopherp"):
                view = "http"
            if reqs.VIEWS[view][0] not in ("gopher", "gopherp") and not raw.startswith(b"/"):
                raw = b"/" + raw
            try:
                requests.append(reqs.render(view, raw, prequoted=preq))
            except Exception:
                pass
        for data, tls in requests:
            try:
                rep = sp.request(data, tls=tls, timeout=20)
                if b"OUTSIDE-THE-ROOT" in rep or b"OUTSIDE SUBJECT" in rep:
                    chk.witness("C01/outside-content-revealed:real-server", {"request": data[:200], "reply": rep[:200]})
                    return
            except Exception:
                chk.count("strace_leg_client_errors")
            chk.count("strace_leg_requests")
    finally:
        pid = sp.pid
        sp.stop()
    events = sp.trace()
    sp.cleanup()
    start = next((i for i, e in enumerate(events) if "__VF_SERVING_STARTS_HERE__" in e.args), None)
    if start is None:
        chk.note_inconclusive("serving-phase marker not found in the strace log")
        return
    allowed = allowed_prefixes() + ["/proc", "/dev", "/etc/localtime", "/usr/share/zoneinfo", "/etc/ld.so.cache", "/lib", "/lib64",
                                    "/usr/lib", "/usr/lib64", "/etc/ld.so.preload", "/sys/devices/system/cpu", "/etc/nsswitch.conf",
                                    "/etc/passwd", "/etc/group", "/usr/share/locale", "/usr/lib/locale", "/etc/locale.alias",
                                    "/etc/ssl", "/usr/lib/ssl", "/etc/gai.conf", "/etc/hosts", "/etc/resolv.conf", "/etc/host.conf"]
    helper_list = helpers() + ["/bin/sh", "/usr/bin/sh", "/bin/dash", "/usr/bin/dash"]
    helper_pids = set()
    counted = 0
    for e in events[start:]:
        if e.pid in helper_pids:
            continue
        if e.name in ("execve", "execveat") and e.ok:
            helper_pids.add(e.pid)
            exe = (_strace_paths(e) or [""])[0]
            if not (audit.under(exe, root) or exe in helper_list):
                chk.witness("C01/syscall-outside-root:execve", {"event": e.brief()[:300]})
                return
            continue
        if e.name in ("chdir", "chroot"):
            # subprocess children may chdir before exec only if asked to; the server itself never does
            chk.count("syscall:" + e.name)
        paths = _strace_paths(e)
        for pth in paths:
            if not pth:
                continue
            full = os.path.normpath(pth if pth.startswith("/") else os.path.join(cwd, pth))
            counted += 1
            if audit.under(full, root) or any(audit.under(full, a) for a in allowed) or full in helper_list:
                continue
            if e.name in ("stat", "lstat", "newfstatat", "statx", "fstatat64", "access", "faccessat", "faccessat2", "readlink", "readlinkat"):
                chk.count("syscall_metadata_probes_outside_root_not_a_verdict")
                continue
            chk.witness("C01/syscall-outside-root:%s:%s" % (e.name, "working-directory" if audit.under(full, cwd) else "elsewhere"),
                        {"event": e.brief()[:400], "resolved": full, "cwd": cwd, "root": root})
            return
    chk.count("strace_path_arguments_checked", counted)
    chk.count("strace_helper_processes", len(helper_pids))
    if counted < 200:
        chk.note_inconclusive("the strace leg saw only %d path arguments" % counted)
    chk.case(("strace-leg", counted > 0), {"syscall_path_arguments_checked": counted, "helper_processes": len(helper_pids),
                                          "requests": chk.counters.get("strace_leg_requests", 0)})


def snapshot_outside(base: str, root: str) -> typing.Dict[str, typing.Tuple[int, int]]:
    snap = {}
    for dp, dn, fn in os.walk(os.fsencode(base)):
        if dp == os.fsencode(root) or dp.startswith(os.fsencode(root) + b"/"):
            dn[:] = []
            continue
        for f in fn + dn:
            p = os.path.join(dp, f)
            if p == os.fsencode(root):
                continue
            try:
                st = os.lstat(p)
                snap[p.decode("utf-8", "backslashreplace")] = (st.st_size if not os.path.isdir(p) else 0, int(st.st_mtime))
            except OSError:
                pass
    return snap


def main() -> int:
    chk = Check("C01", "exploration")
    quick = chk.tier == "quick"
    if not quick and chk.args.shard is None:
        common.run_shards(chk, "vf.checks.c01", 16, timeout=3000)
    else:
        with Scratch("c01") as sc:
            for i in range(0 if os.environ.get("VF_C01_ONLY_STRACE") else (2 if quick else 5)):
                run_site(chk, sc, i, nhostile=220 if quick else 600)
            if quick or chk.args.shard in (0, 1):
                strace_leg(chk, sc, nhostile=60 if quick else 700)
    if not chk.witnesses and chk.counters.get("audit_events", 0) < 1000:
        chk.note_inconclusive("the audit monitor saw fewer than 1000 events")
    return chk.finish(
        rule="case = one request (objects of a generated site in every protocol view; traversal tokens at every path "
             "position; climbs from real directories, archives and virtual-argument suffixes; 1-3 percent-encoding "
             "layers; URL: forms; random lines) served in three worlds that differ only outside the root (A: nothing "
             "outside, neutral cwd; B: prefix siblings, populated parent, cwd full of look-alikes of every path tail; "
             "C: cwd inside the root). Verdict per request: no audit event (open/listdir/scandir/stat/access/readlink/"
             "mkdir/remove/rename/chdir/exec/Popen...) on a path outside the root other than the server's own code and "
             "the configured decompressors; no outside content in the reply; climbing requests answered as not-found; "
             "replies byte-identical across worlds; nothing created or changed outside the root; plus (M-SYS) the real "
             "server process under strace -f in a populated outside world: every path argument of every file-related system "
             "call made by the server while serving is inside the root or part of its own installation",
        assumptions=["no symlink leaves the root", "kernel-level effects of helper programs (decompressors, script "
                     "interpreters) are attributed to the helper", "the three worlds sample 'every state outside the root'"])


if __name__ == "__main__":
    common.main_wrapper(main)
