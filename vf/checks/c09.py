"""C09 -- gophermap files are rendered line for line as documented.

Reference reading from doc/pygopherd.txt (GOPHERMAP.BUCKGOPHERMAPHANDLER) and
doc/standards/gophermap.txt; no code shared with pygopherd.handlers.gophermap."""
from __future__ import annotations

import os
import shutil
import typing

from vf import parsers, common, crawl, driver, reqs, validate
from vf.checks import c06
from vf.common import Check, Scratch
from vf.trees import Tree

# the server of this check advertises a port other than the gopher default, so that
# "defaults to the port of the current server" is distinguishable from "70"
HOST, PORT = driver.SERVER_NAME.encode(), 7071
TYPES = "0179hgIs4569T8i"
WORDS = [b"About", b"News", b"Files", b"caf\xc3\xa9", b"R\xe9sum\xe9", b"Old stuff", b"a & b", b"<tag>", b"x=y", b"Q?",
         # characters that some line splitters (str.splitlines) treat as line ends; a gophermap line ends at LF only
         b"form\x0cfeed", b"vt\x0btab", b"fs\x1csep", b"nel\xc2\x85next", b"ls\xe2\x80\xa8sep", b"cr\rmid"]


def gophermap_ref(text: bytes, dirsel: bytes, relative_ok: bool = True) -> typing.List[tuple]:
    """-> [(type, name, selector, host, port)] one per line, in file order."""
    out = []
    lines = text.split(b"\n")
    if lines and lines[-1] == b"":
        lines.pop()
    base = b"" if dirsel == b"/" else dirsel
    for ln in lines:
        ln = ln.rstrip(b"\r")
        if b"\t" not in ln:
            out.append(("i", ln, None, None, None))
            continue
        f = ln.split(b"\t")
        typ = chr(f[0][0])
        desc = f[0][1:]
        # (a tab line of type 'i' is a tab line like any other: its fields follow the same rules)
        sel = f[1] if len(f) > 1 and f[1] else desc
        if not sel.startswith(b"/") and not sel.startswith(b"URL:"):
            sel = base + b"/" + sel
        host = f[2] if len(f) > 2 and f[2] else HOST
        port = int(f[3]) if len(f) > 3 and f[3] else PORT
        out.append((typ, desc, sel, host, port))
    return out


def gen_map(rng, existing: typing.List[bytes], allow_relative: bool) -> bytes:
    lines = []
    nlines = rng.randrange(0, 30)
    if rng.random() < 0.04:
        nlines = rng.randrange(600, 900)      # a long gophermap (well beyond 20 KB)
    for _ in range(nlines):
        r = rng.random()
        name = rng.choice(WORDS) + b" %d" % rng.randrange(100)
        if r < 0.2:
            lines.append(rng.choice([b"Welcome to the site", b"", b"-----", b"plain text with spaces", name,
                                     b"caf\xe9 latin1 info", b"1 looks like a link but has no tab",
                                     # lines that other formats read as comments or markup: here they are text like any other
                                     b"# News", b"## older items", b"#gopher on irc.example.org", b"#", b"; note", b"// note",
                                     b"!bang", b"\"quoted\""]))
        elif r < 0.3:
            lines.append(b"i" + name + b"\tfake\t(NULL)\t0")
        else:
            typ = rng.choice(TYPES).encode()
            if rng.random() < 0.06:
                # the type is the line's first character, whatever it is
                typ = rng.choice([b"#", b'"', b"<", b"&", b";", b"+", b"'"])
            k = rng.random()
            if k < 0.15 and allow_relative:
                lines.append(typ + rng.choice(existing + [b"missing.txt"]) + b"\t")          # selector = description
            elif k < 0.22 and allow_relative:
                nm = rng.choice(existing + [b"missing.txt"])
                lines.append(typ + nm + rng.choice([b"\t", b"\t\t", b"\t\t\t"]))
            elif k < 0.45 and allow_relative:
                lines.append(typ + name + b"\t" + rng.choice(existing + [b"sub/deeper.txt", b"nothere"]))
            elif k < 0.5 and allow_relative:
                # selectors with a parent-directory component, naming things that exist and things that do not: every
                # line is an entry whatever it points at (whether the server then serves it is another property's matter)
                e1, e2 = rng.choice(existing), rng.choice(existing)
                lines.append(typ + name + b"\t" + rng.choice([b"..", b"../", b"../" + e1, e1 + b"/../" + e2, b"../nothere", b"./" + e1,
                                                              b"/" + e1 + b"/../" + e2, b"/.."]))
            elif k < 0.65:
                lines.append(typ + name + b"\t/" + rng.choice(existing + [b"abs/path", b"x y/z"]))
            elif k < 0.75:
                lines.append(b"h" + name + b"\tURL:http://www.example.org/" + rng.choice([b"", b"a/b", b"x?y=1"]))
            elif k < 0.9:
                lines.append(typ + name + b"\t/remote/sel\tgopher%d.example.org\t%d" % (rng.randrange(5), rng.choice([70, 7070])))
            elif k < 0.95:
                lines.append(typ + name + b"\t/remote/noport\tgopher.example.org")
            else:
                # host field present but empty, port given: this host, that port
                lines.append(typ + name + b"\t/otherport/sel\t\t%d" % rng.choice([7070, 105, PORT]))
    text = b"\n".join(lines)
    if lines:
        text += rng.choice([b"\n", b"\n", b""])
    if rng.random() < 0.15:
        text = text.replace(b"\n", b"\r\n")
    return text


def on_gopher_wire(want: typing.List[tuple]) -> typing.List[tuple]:
    """What a Gopher menu can say of these entries: a line ends at CR LF, so a CR inside a field (a gophermap line ends
    at LF only and may hold one) is written as a blank.  Which entries there are, and every other byte, is unchanged."""
    def f(x):
        return x.replace(b"\r", b" ") if isinstance(x, bytes) else x
    return [(t[0], f(t[1]), f(t[2]), f(t[3]), t[4]) for t in want]


def to_class(t: tuple) -> tuple:
    typ, name, sel, host, port = t
    if typ == "i":
        return ("info", name)
    if host == HOST and port == PORT:
        if sel.startswith(b"URL:") or sel.startswith(b"/URL:"):
            return ("remote", name, ("url", sel.split(b"URL:", 1)[1]))
        return ("search" if typ == "7" else "local", name, sel)
    return ("remote", name, ("gopher", host, port, typ.encode(), sel))


def observed(parsed, want) -> typing.List[tuple]:
    """Menu lines as 5-tuples; for informational text (a line without a tab in the map) the filler fields the
    server puts after the text are not specified and are left out of the comparison."""
    out = []
    for k, d in enumerate(parsed):
        w = want[k] if k < len(want) else None
        if d["type"] == "i" and (w is None or w[2] is None):
            out.append(("i", d["name"], None, None, None))
        else:
            out.append((d["type"], d["name"], d["selector"], d["host"], d["port"]))
    return out


def run_case(chk: Check, sc: Scratch, idx: int) -> None:
    rng = chk.subrng("case", idx)
    depth = rng.choice([b"", b"d1", b"d1/d2", b"d1/d2/d3", b"site.gophermap", b"d1/old.gophermap"])
    as_file = rng.random() < 0.25
    # (names that look like 'scheme:rest' are ordinary relative names: only the literal prefix URL: is special)
    existing = [b"real.txt", b"pic.gif", b"sub dir", b"page.html", b"irc:today.txt", b"c:autoexec.bat", b"mailto:list", b"url:lower.txt",
                b"URL", b"x:y/z.txt"]
    t = Tree()
    dpath = depth
    if dpath:
        t.dir(dpath)
    pre = (dpath + b"/") if dpath else b""
    t.file(pre + b"real.txt", "real\n")
    t.file(pre + b"pic.gif", "GIF89a")
    t.file(pre + b"sub dir/deeper.txt", "deeper\n")
    t.file(pre + b"page.html", "<html><title>Page Title</title></html>")
    for extra in (b"irc:today.txt", b"c:autoexec.bat", b"mailto:list", b"url:lower.txt", b"URL", b"x:y/z.txt"):
        t.file(pre + extra, "scheme-like name\n")
    text = gen_map(rng, existing, allow_relative=not as_file)
    if as_file:
        t.file(pre + b"menu.gophermap", text)
        sel = b"/" + pre + b"menu.gophermap"
    else:
        t.file(pre + b"gophermap", text)
        sel = b"/" + dpath if dpath else b"/"
    root = sc.sub("r%d" % idx)
    t.materialize(root)
    site = driver.Site(root, overrides={("pygopherd", "abstract_entries"): "never", ("pygopherd", "abstract_headers"): "off"})
    site.server.server_port = PORT
    crawl.LOCAL_PORT = PORT
    try:
        want = gophermap_ref(text, sel)
        sample = {"selector": sel, "gophermap": text[:600], "as_file": as_file}
        # Gopher: full five-field comparison
        req, _ = reqs.render("gopher", sel)
        resp = site.request(req)
        v = validate.validate(resp, req)
        if not v.ok or v.klass != "menu" or (resp.protocol_handler() or (0, 0))[1] != "BuckGophermapHandler":
            chk.witness("C09/listing-failed:gopher", dict(sample, reply=resp.data[:300], log=resp.log[:3], reason=v.reason,
                                                         escaped=resp.escaped[:1]))
            return
        wire_want = want
        want = on_gopher_wire(want)
        got = observed(v.parsed, want)
        if got != want:
            i = next((k for k, (a, b) in enumerate(zip(got, want)) if a != b), min(len(got), len(want)))
            if i >= min(len(got), len(want)):
                what = "line-count"
            else:
                g, w = got[i], want[i]
                what = next((nm for k, nm in enumerate(["type", "description", "selector", "host", "port"]) if g[k] != w[k]), "?")
                if what == "selector" and w[2] is not None:
                    what += ":" + ("defaulted" if w[1] == w[2].rsplit(b"/", 1)[-1] or w[1] == w[2] else
                                   "relative" if not text.split(b"\n")[i].split(b"\t")[1:2] == [w[2]] else "absolute")
            chk.witness("C09/gopher-line-differs:%s" % what, dict(sample, index=i, got=got[i:i + 2], want=want[i:i + 2]))
            return
        # every other protocol: same entries in the same order
        for view in ("gophers", "gopherp+", "gopherp$", "http", "https", "wap", "gemini", "spartan"):
            ref_classes = [to_class(x) for x in (want if reqs.VIEWS[view][0] in ("gopher", "gopherp") else wire_want)]
            ents, r2, v2 = c06.listing(chk, site, view, sel)
            if ents is None:
                chk.witness("C09/listing-failed:%s" % reqs.VIEWS[view][0], dict(sample, view=view, reply=r2.data[:300], reason=v2.reason))
                return
            gl = view in c06.GEMLIKE
            b = c06.normalize(view, ents, gl)
            a = [(x[0], c06.gem_name(x[1]) if gl else x[1]) + tuple(x[2:]) for x in ref_classes]
            if view in ("http", "https", "wap"):
                # an informational line's text is whitespace-collapsed by no protocol; compare as is
                pass
            if a != b:
                i = next((k for k, (x, y) in enumerate(zip(a, b)) if x != y), min(len(a), len(b)))
                chk.witness("C09/protocols-disagree:%s" % reqs.VIEWS[view][0],
                            dict(sample, view=view, index=i, reference=a[i:i + 2], this=b[i:i + 2], n_ref=len(a), n_this=len(b)))
                return
        # the same tree packed into an archive: a gophermap inside it renders the same, under the archive's selector
        if dpath and idx % 2 == 0:
            zroot = sc.sub("z%d" % idx)
            Tree().file("packed.zip", t.to_zip()).materialize(zroot)
            zsite = driver.Site(zroot, handlers=driver.HANDLERS_FULL,
                                overrides={("pygopherd", "abstract_entries"): "never", ("pygopherd", "abstract_headers"): "off"})
            zsite.server.server_port = PORT
            try:
                zsel = b"/packed.zip" + sel
                zwant = on_gopher_wire(gophermap_ref(text, zsel))
                zreq, _ = reqs.render("gopher", zsel)
                zresp = zsite.request(zreq)
                zv = validate.validate(zresp, zreq)
                zgot = []
                if zv.ok and zv.klass in ("menu", "any"):
                    try:
                        zgot = observed(parsers.parse_gopher_menu(zresp.data), zwant)
                    except parsers.Malformed:
                        zgot = None
                if zgot != zwant:
                    chk.witness("C09/gophermap-inside-archive-not-rendered", dict(sample, archive_selector=zsel, got=(zgot or [])[:3],
                                                                                   want=zwant[:3], reply=zresp.data[:300], log=zresp.log[:2]))
                    return
                chk.count("gophermaps_inside_archives_compared")
            finally:
                zsite.close()
                site.activate()
                site.server.server_port = PORT
                shutil.rmtree(zroot, ignore_errors=True)
        # the map is edited in place (same file, directory untouched): the next listing must follow it
        text2 = gen_map(chk.subrng("case2", idx), existing, allow_relative=not as_file)
        mpath = os.path.join(os.fsencode(root), pre + (b"menu.gophermap" if as_file else b"gophermap"))
        dpath = os.path.dirname(mpath)
        dst = os.stat(dpath)
        with open(mpath, "r+b") as fp:
            fp.seek(0)
            fp.write(text2)
            fp.truncate()
        os.utime(dpath, ns=(dst.st_atime_ns, dst.st_mtime_ns))
        resp2 = site.request(req)
        v2 = validate.validate(resp2, req)
        want2 = on_gopher_wire(gophermap_ref(text2, sel))
        got2 = []
        if v2.ok and v2.klass == "menu":
            got2 = observed(v2.parsed, want2)
        if got2 != want2:
            chk.witness("C09/listing-does-not-follow-edited-gophermap", dict(sample, edited_to=text2[:300], got=got2[:3], want=want2[:3],
                                                                              stale=(got2 == want)))
            return
        chk.count("in_place_edits_followed")
        kinds = tuple(sorted({x[0] for x in ref_classes}))
        chk.case((as_file, len(depth.split(b"/")) if depth else 0, kinds, min(len(want), 10), b"\r\n" in text),
                 dict(sample, lines=len(want)) if idx % 60 == 0 else None)
        chk.count("gophermap_lines_compared", len(want) * 9)
    finally:
        site.close()


def main() -> int:
    chk = Check("C09", "exploration")
    quick = chk.tier == "quick"
    if not quick and chk.args.shard is None:
        common.run_shards(chk, "vf.checks.c09", 16, timeout=2400)
    else:
        with Scratch("c09") as sc:
            import os
            import shutil
            for i in range(250 if quick else 1200):
                run_case(chk, sc, i)
                if i % 40 == 39:
                    for d in os.listdir(sc.path):
                        shutil.rmtree(os.path.join(sc.path, d), ignore_errors=True)
    return chk.finish(
        rule="case = one generated gophermap (0-30 lines: info, blank, links with 1-4 fields, absolute/relative/URL: "
             "selectors, remote hosts with and without port, type-i link lines) in a directory at depth 0-3 or as a "
             "*.gophermap file, listed through 9 protocol views; Gopher compared field by field with the reference "
             "reading, the others as (class, name, target) sequences. distinct = (as file?, depth, entry classes, "
             "size bucket, CRLF file?)",
        assumptions=["fields carry no leading/trailing blanks; an empty host field with a port means this host on that port; a missing "
                     "selector is generated only for local entries; *.gophermap files use no relative selectors (the "
                     "manual does not say what they are relative to)"])


if __name__ == "__main__":
    common.main_wrapper(main)
