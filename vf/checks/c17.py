"""C17 - simpleTAL executes templates according to TAL/TALES semantics.

Differential: simpleTAL.compileHTMLTemplate(T).expand(ctx) against vf.talref (an
independent tree-walking evaluator) on grammar-generated (template, context) pairs,
compared as normalised html.parser event streams.
Structural monitor on every compiled program: START_SCOPE/ENDTAG_ENDSCOPE nest like
brackets, every command carrying an end-tag symbol targets the ENDTAG_ENDSCOPE closing
its own innermost START_SCOPE, sub-template (macro / slot) ranges are exactly one scope.
Dynamic monitor on every TemplateInterpreter.execute: the scope stack is empty and the
context's local / repeat stacks are as deep at exit as at entry.
"""
from __future__ import annotations

import io
import logging
import traceback

import vf  # noqa: F401  (puts the repository under test on sys.path)
from vf import talref
from vf.common import Check, main_wrapper, run_shards

from simpletal import simpleTAL, simpleTALES  # noqa: E402

CASES = {"quick": 4000, "thorough": 80000}     # thorough: per shard, 16 shards
RISKY_KEYS = {
    "text-keyword": "C17/content-text-keyword",
    "exists-alt-unstripped": "C17/exists-nocall-alternation-first-path-unstripped",
    "exists-alt-truthiness": "C17/exists-alternation-later-path-truthiness",
    "exists-repeatvar": "C17/exists-on-repeat-variable-realvalue",
}
# index of the end-tag symbol in the argument tuple of the commands that carry one
SYM_AT = {simpleTAL.TAL_CONDITION: 1, simpleTAL.TAL_REPEAT: 2, simpleTAL.TAL_CONTENT: 3,
          simpleTAL.METAL_USE_MACRO: 2, simpleTAL.METAL_DEFINE_SLOT: 1}


def inspect_program(tpl) -> tuple:
    """-> (problems, jumps checked, scopes, sub-templates checked)."""
    cmds, syms = tpl.commandList, tpl.symbolTable
    stack, close, owner, problems = [], {}, {}, []
    for i, (op, args) in enumerate(cmds):
        if op == simpleTAL.TAL_START_SCOPE:
            stack.append(i)
        elif op == simpleTAL.TAL_ENDTAG_ENDSCOPE:
            if not stack:
                problems.append("ENDTAG_ENDSCOPE at %d closes nothing" % i)
            else:
                close[stack.pop()] = i
        elif op in SYM_AT:
            owner[i] = stack[-1] if stack else None
    if stack:
        problems.append("START_SCOPE at %s never closed" % stack)
    for i, start in owner.items():
        target = syms.get(cmds[i][1][SYM_AT[cmds[i][0]]])
        if start is None or target != close.get(start):
            problems.append("command %d (opcode %d) in scope opened at %s targets %s, scope closes at %s" % (
                i, cmds[i][0], start, target, close.get(start)))
    subs = [(None, m) for m in tpl.macros.values()]
    for i, (op, args) in enumerate(cmds):
        if op == simpleTAL.METAL_USE_MACRO:
            subs += [(owner.get(i), s) for s in args[1].values()]
    for outer, s in subs:
        end = syms.get(s.endRangeSymbol)
        if not (0 <= s.startRange < len(cmds)) or cmds[s.startRange][0] != simpleTAL.TAL_START_SCOPE \
                or close.get(s.startRange) != end:
            problems.append("sub-template range %s..%s is not one scope" % (s.startRange, end))
        elif outer is not None and not (outer < s.startRange and end < close.get(outer, -1)):
            problems.append("slot range %s..%s outside its use-macro scope %s..%s" % (
                s.startRange, end, outer, close.get(outer)))
    return problems, len(owner), len(close), len(subs)


class DoesNotTerminate(Exception):
    pass


class StepBudget(dict):
    """The interpreter's opcode dispatch table, counting dispatches: a deterministic
    guard against expansions that never end.  C17 sets `limit` per case from the size
    of the reference expansion (typical cases need < 10^4 steps, the heaviest seen 10^6)."""
    limit = 20_000_000
    last_used = 0

    def __init__(self, handlers):
        dict.__init__(self, handlers)
        self.used = 0

    def __getitem__(self, op):
        self.used = StepBudget.last_used = self.used + 1
        if self.used > StepBudget.limit:
            raise DoesNotTerminate("more than %d interpreter steps" % StepBudget.limit)
        return dict.__getitem__(self, op)


class Monitors:
    """Wraps compileHTMLTemplate (structural) and TemplateInterpreter.execute (dynamic)."""

    def __init__(self, chk: Check):
        self.chk = chk
        self.current = None          # description of the case being run, for witnesses
        orig_compile, orig_execute = simpleTAL.compileHTMLTemplate, simpleTAL.TemplateInterpreter.execute

        def compile_html(*a, **kw):
            tpl = orig_compile(*a, **kw)
            problems, jumps, scopes, subs = inspect_program(tpl)
            chk.count("programs_inspected")
            chk.count("jump_targets_checked", jumps)
            chk.count("scopes_checked", scopes)
            chk.count("subtemplate_ranges_checked", subs)
            if problems:
                chk.witness("C17/compiled-program-malformed", dict(self.current or {}, problems=problems[:5]))
            return tpl

        def execute(interp, template):
            ctx = interp.context
            if not isinstance(interp.commandHandler, StepBudget):
                interp.commandHandler = StepBudget(interp.commandHandler)
            before = (len(ctx.localStack), len(ctx.repeatStack))
            orig_execute(interp, template)
            chk.count("executes_monitored")
            after = (len(ctx.localStack), len(ctx.repeatStack))
            if interp.scopeStack or after != before:
                chk.witness("C17/interpreter-stack-imbalance", {
                    "scope_stack_depth_at_exit": len(interp.scopeStack),
                    "local_repeat_stack_depth_entry": before, "exit": after, **(self.current or {})})

        simpleTAL.compileHTMLTemplate = compile_html
        simpleTAL.TemplateInterpreter.execute = execute


def expand_real(lib, page, schema, which: str = "page") -> str:
    ctx = simpleTALES.Context(allowPythonPath=0)
    for k, v in schema.build().items():
        ctx.addGlobal(k, v)
    tpls = {}
    for name, text in (("lib", lib), ("page", page)):
        if text is not None:
            tpls[name] = simpleTAL.compileHTMLTemplate(text)
            ctx.addGlobal(name, tpls[name])
    out = io.StringIO()
    tpls[which].expand(ctx, out)
    return out.getvalue()


def expand_ref(lib, page, schema, which: str = "page") -> str:
    globs = schema.build()
    tpls = {}
    for name, text in (("lib", lib), ("page", page)):
        if text is not None:
            tpls[name] = globs[name] = talref.RefTemplate(text)
    out = tpls[which].expand(globs)
    # at most a few dozen interpreter steps per element the reference rendered
    StepBudget.limit = 100_000 + 500 * tpls[which].work
    return out


def compare(lib, page, schema, which: str, ref_out: list = None):
    """-> None (agree) | 'abstain:...' | dict describing the disagreement."""
    try:
        want = expand_ref(lib, page, schema, which)
    except talref.Abstain as e:
        return "abstain:%s" % e
    if ref_out is not None:
        ref_out.append(want)
    try:
        got = expand_real(lib, page, schema, which)
    except Exception as e:  # the real code raised where the reference has an answer
        tb = traceback.extract_tb(e.__traceback__)
        site = next((f.name for f in reversed(tb) if "simpletal" in f.filename), "?")
        return {"exception": "%s@%s" % (type(e).__name__, site), "message": str(e)[:200], "expected": want[:600]}
    d = talref.first_diff(talref.events(got), talref.events(want))
    if d is None:
        return None
    return {"first_difference": {"event_index": d[0], "simpleTAL": d[1], "reference": d[2]},
            "simpleTAL_output": got[:800], "reference_output": want[:800]}


def run_case(chk: Check, mon: Monitors, seed: int, i: int) -> None:
    chk.seed = seed
    # harness hygiene: simpleTALES raises one module-level exception *instance* for every
    # missing path, whose __traceback__ chain (frames, their locals) otherwise grows
    # without bound over a long run (observed: ~100 kB per case)
    simpleTALES.PATHNOTFOUNDEXCEPTION.__traceback__ = None
    rng = chk.subrng("case", i)
    risky = rng.choice(talref.RISKY) if rng.random() < 0.06 else None
    schema = talref.Schema(rng)
    gen = talref.TemplateGen(rng, max_depth=rng.randint(2, 5), risky=risky, metal=rng.random() < 0.7)
    lib = gen.gen_lib() if gen.use_metal and rng.random() < 0.75 else None
    page = gen.gen_page()
    which = "lib" if lib is not None and rng.random() < 0.2 else "page"
    written = [talref.variants(t)[0] if t is not None else None for t in (lib, page)]
    safe = [talref.variants(t)[1] if t is not None else None for t in (lib, page)]
    mon.current = {"case": i, "case_seed": seed}
    ref_out: list = []
    res = compare(written[0], written[1], schema, which, ref_out)
    detail = {"case": i, "case_seed": seed, "expanded": which, "lib": written[0], "page": written[1],
              "context": schema.vals, "result": res}
    if isinstance(res, str):
        chk.count("reference_abstained")
        chk.case(None)
        return
    if res is not None:
        key = "C17/exception:" + res["exception"] if "exception" in res else "C17/expansion-differs-from-reference"
        if risky and written != safe and compare(safe[0], safe[1], schema, which) is None:
            # the same template agrees once the risky spelling is replaced by its
            # spec-equivalent safe spelling: the defect is in that construct class
            key = RISKY_KEYS[risky]
            detail["agrees_when_spelled"] = safe[1] if which == "page" else safe[0]
        chk.witness(key, detail)
    if risky and written != safe:
        chk.count("risky_construct_cases")
    cmds = sorted({c for s in gen.subsets for c in s} | {u for u in gen.used if u in (
        "use-macro", "define-slot", "fill-slot", "define-macro")})
    n_el = sum(1 for e in talref.events(ref_out[0]) if e[0] == "S") if res is None else -1
    klass = "differs" if res is not None else "no-elements" if n_el == 0 else "1-9 elements" if n_el < 10 \
        else "10+ elements"
    chk.case((tuple(cmds), gen.depth_seen, klass),
             {"page": written[1][:400], "lib": (written[0] or "")[:200], "commands": cmds, "result": klass})
    for s in gen.subsets:
        SUBSETS.add(s)
    for u in gen.used:
        chk.count("construct:" + u)


class _FixedSchema:
    """A hand-shaped context for the directed family below (same interface as talref.Schema)."""

    def __init__(self, vals: dict):
        self.vals = vals

    def build(self) -> dict:
        import copy
        return copy.deepcopy(self.vals)


def directed_case(chk: Check, mon: Monitors, seed: int, i: int) -> None:
    """Directed family: one element carrying tal:repeat together with tal:attributes whose
    expressions fall back to `default` for *some* items (the element's own attribute value
    must then show, not a value left over from an earlier item), nested and with
    tal:content / tal:condition / tal:define mixed in."""
    simpleTALES.PATHNOTFOUNDEXCEPTION.__traceback__ = None
    rng = chk.subrng("directed", i)
    n = rng.randint(2, 6)
    items = []
    for k in range(n):
        it = {"name": "n%d" % k}
        if rng.random() < 0.5:
            it["url"] = "gopher://h/%d" % k
        if rng.random() < 0.5:
            it["cls"] = rng.choice(["hot", "cold"])
        if rng.random() < 0.4:
            it["kids"] = [{"name": "k%d" % j, **({"cls": "deep"} if rng.random() < 0.5 else {})} for j in range(rng.randint(0, 3))]
        else:
            it["kids"] = []
        items.append(it)
    attrs = rng.sample(["href l/url | default", "class l/cls | default", "title l/url | l/cls | default",
                        "id l/missing | default", "lang l/cls | nothing"], rng.randint(1, 3))
    static = rng.sample(['href="#"', 'class="plain"', 'title="static title"', 'lang="en"'], rng.randint(0, 3))
    inner = rng.choice(['<b tal:content="l/name">x</b>', 'x', '<i tal:condition="l/url | nothing">has url</i>',
                        '<span tal:repeat="k l/kids" tal:attributes="class k/cls | default" class="kid" tal:content="k/name">k</span>'])
    extra = rng.choice(["", ' tal:define="u l/url | nothing"', ' tal:condition="l/name"'])
    tmpl = '<ul><li tal:repeat="l items"%s tal:attributes="%s" %s>%s</li></ul>' % (extra, "; ".join(attrs), " ".join(static), inner)
    schema = _FixedSchema({"items": items})
    mon.current = {"case": i, "case_seed": seed, "family": "directed"}
    res = compare(None, tmpl, schema, "page")
    if isinstance(res, str):
        chk.count("reference_abstained")
        chk.case(None)
        return
    chk.count("directed_repeat_attributes_cases")
    if res is not None:
        key = "C17/exception:" + res["exception"] if "exception" in res else "C17/expansion-differs-from-reference"
        chk.witness(key, {"family": "repeat+attributes+default", "case": i, "case_seed": seed, "page": tmpl, "context": schema.vals, "result": res})
        return
    chk.case(("directed", len(attrs), len(static), bool(extra), inner[:6]), {"page": tmpl, "items": n} if i < 2 else None)


def directed_long_repeat(chk: Check, mon: Monitors, seed: int, i: int) -> None:
    """Directed family: loops far longer than the grammar's (27 .. 3000 items) reading every repeat variable,
    and expressions in tal:define / tal:attributes / tal:content whose string: literals hold runs of blanks."""
    simpleTALES.PATHNOTFOUNDEXCEPTION.__traceback__ = None
    rng = chk.subrng("long", i)
    n = rng.choice([5, 26, 27, 28, 52, 53, 60, 100, 399, 400, 702, 703, 1000, 1999, 3000])
    items = [{"name": "n%d" % k, "a": "A%d" % k, "b": "B"} for k in range(n)]
    gap = rng.choice(["  ", "   -   ", " ", "  \t ", "    "])
    parts = ['<i tal:content="repeat/x/index">i</i>', '<i tal:content="repeat/x/number">n</i>', '<i tal:content="repeat/x/roman">r</i>',
             '<i tal:content="repeat/x/Roman">R</i>', '<i tal:content="repeat/x/length">l</i>',
             '<b tal:condition="repeat/x/even">even</b>', '<b tal:condition="repeat/x/odd">odd</b>',
             '<b tal:condition="repeat/x/start">first</b>', '<b tal:condition="repeat/x/end">last</b>',
             '<u tal:define="v string:${x/a}%s${x/b}" tal:content="v">v</u>' % gap,
             '<u tal:attributes="title string:${x/a}%s${x/b}; lang string:a%sb" title="t">t</u>' % (gap, gap),
             '<u tal:content="string:${x/a}%s${x/b}">c</u>' % gap,
             '<u tal:define="global g string:g%s${x/name}; w string:${x/name}%send" tal:content="w">w</u>' % (gap, gap)]
    if n <= 26:
        parts += ['<i tal:content="repeat/x/letter">a</i>', '<i tal:content="repeat/x/Letter">A</i>']
    chosen = rng.sample(parts, rng.randint(3, len(parts)))
    tmpl = '<ol><li tal:repeat="x items">%s</li></ol><p tal:content="g | nothing">g</p>' % "".join(chosen)
    schema = _FixedSchema({"items": items})
    mon.current = {"case": i, "case_seed": seed, "family": "long-repeat"}
    res = compare(None, tmpl, schema, "page")
    if isinstance(res, str):
        chk.count("reference_abstained")
        chk.case(None)
        return
    chk.count("directed_long_repeat_cases")
    if res is not None:
        if "exception" not in res:
            res = {k: (v[:300] if isinstance(v, str) else v) for k, v in res.items()}
        key = "C17/exception:" + res["exception"] if "exception" in res else "C17/expansion-differs-from-reference"
        chk.witness(key, {"family": "long-repeat+blank-runs", "case": i, "case_seed": seed, "page": tmpl, "items": n, "result": res})
        return
    chk.case(("long-repeat", n, len(chosen), gap), {"page": tmpl[:300], "items": n} if i < 2 else None)


SUBSETS: set = set()
RULE = ("distinct (set of TAL/METAL commands used in the template, maximum nesting depth, result class "
        "{no-elements, 1-9, 10+ output elements, differs}) triples among cases the reference did not abstain on")


def main() -> int:
    chk = Check("C17", "exploration")
    logging.disable(logging.CRITICAL)
    mon = Monitors(chk)
    if chk.replay_case:
        for w in chk.replay_case.get("witnesses", []):
            if isinstance(w, dict) and "case" in w:
                run_case(chk, mon, w.get("case_seed", chk.seed), w["case"])
    elif chk.tier == "thorough" and chk.args.shard is None:
        run_shards(chk, "vf.checks.c17", 16)
    else:
        seed = chk.seed
        for i in range(CASES[chk.tier]):
            run_case(chk, mon, seed, i)
        for i in range(CASES[chk.tier] // 10):
            directed_case(chk, mon, seed, i)
        for i in range(max(40, CASES[chk.tier] // 40)):
            directed_long_repeat(chk, mon, seed, i)
        chk.seed = seed
    c = chk.counters
    if not chk.replay_case:
        for name in ("programs_inspected", "jump_targets_checked", "subtemplate_ranges_checked", "executes_monitored"):
            if not c.get(name):
                chk.note_inconclusive("monitor saw nothing: %s = 0" % name)
        if c.get("reference_abstained", 0) * 20 > max(chk.evaluations, 1):
            chk.note_inconclusive("reference abstained on more than 5%% of the cases (%d)" % c["reference_abstained"])
    return chk.finish(RULE, talref.ASSUMPTIONS, min_distinct=0 if chk.replay_case else 2, extra={
        "distinct_per_element_command_subsets": len(SUBSETS) if chk.args.shard is None and SUBSETS else "see shards"})


if __name__ == "__main__":
    main_wrapper(main)
