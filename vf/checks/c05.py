"""C05 -- listings only advertise what the server will serve (link closure)."""
from __future__ import annotations

import re
import typing

from vf import common, crawl, driver, reqs, sites, trees, validate
from vf.common import Check, Scratch

CRAWL_VIEWS = ["gopher", "gopherp$", "http", "wap", "gemini", "spartan", "gophers", "https"]
MAX_LINKS = 600


def menu_view_for(view: str) -> str:
    return view


def crawl_site(chk: Check, site: driver.Site, view: str, kind_of: typing.Dict[bytes, str], ctx: str) -> None:
    fam = reqs.VIEWS[view][0]
    expected_proto = reqs.EXPECTED_PROTOCOL[view]
    root_req, tls = reqs.render(view, b"/")
    todo: typing.List[typing.Tuple[bytes, bool, typing.Optional[crawl.Entry], bytes]] = [(root_req, tls, None, b"(root)")]
    seen = set()
    followed = 0
    while todo and followed < MAX_LINKS:
        req, tls, entry, parent = todo.pop(0)
        if (req, tls) in seen:
            continue
        seen.add((req, tls))
        if entry is not None and fam in ("gopher", "gopherp") and isinstance(entry.selector, bytes) and \
                entry.selector.decode("utf-8", "surrogateescape").rstrip() != entry.selector.decode("utf-8", "surrogateescape"):
            # outside the property's quantifier: the Gopher family cannot express a selector that ends in a blank
            # (request fields are trimmed); the URL-based views must still reach the same object
            chk.count("gopher_family_trailing_blank_selectors_skipped")
            continue
        resp = site.request(req, tls=tls)
        followed += 1
        chk.count("links_followed:" + fam)
        sample = {"view": view, "ctx": ctx, "request": req[:160], "listed_in": parent, "protocol": resp.protocol,
                  "reply_head": resp.data[:100], "log": resp.log[:2]}
        v = validate.validate(resp, req)
        mech = None
        ambiguous = entry is not None and fam == "gopher" and reqs.gopher_ambiguous(entry.selector)
        if resp.escaped or resp.hung or [e for e in resp.exceptions() if not validate.is_io_error_name(e)]:
            mech = "C05/link-crashes:%s" % fam
        elif not v.ok:
            mech = "C05/link-malformed-reply:%s" % fam
        elif v.klass == "error":
            mech = "C05/link-not-found:%s" % fam
        elif resp.protocol != expected_proto:
            mech = "C05/link-answered-by-other-protocol:%s->%s" % (expected_proto, resp.protocol)
        if mech is None and entry is not None:
            # advertised kind
            want = None
            if entry.type is not None:
                want = "menu" if entry.type == "1" else (None if entry.type == "7" else "doc")
            elif entry.selector in kind_of and not entry.search:
                want = kind_of[entry.selector]
            if entry.search and fam == "gemini":
                if v.klass != "prompt":
                    mech = "C05/gemini-search-link-does-not-prompt"
                want = None
            if mech is None and want is not None and v.klass not in (want, "any", "info"):
                mech = "C05/link-kind:%s-advertised-%s-served:%s" % (want, v.klass, fam)
            if mech is None and fam == "gopher" and entry.type is not None and entry.selector not in kind_of \
                    and v.klass in ("menu", "doc"):
                kind_of[entry.selector] = v.klass
        if mech is not None:
            if ambiguous:
                mech = "C05/gopher-selector-has-spartan-request-shape"
            elif entry is not None and fam in ("http", "wap") and _wap_prefix_clash(entry):
                mech += ":name-starts-with-waptop"
            chk.witness(mech, sample)
            continue
        tag = "root" if entry is None else ("search" if entry.search else (entry.type or kind_of.get(entry.selector, "?")))
        chk.case((view, ctx.split(":")[0], tag, v.klass, _nameclass(entry)), sample if followed % 53 == 1 else None)
        descend = v.klass in ("menu", "info") or (v.klass == "any" and (entry is None or entry.type in (None, "1")))
        if descend and (entry is None or not entry.search):
            try:
                if fam in ("http", "wap"):
                    mpath = re.match(rb"(?:GET|HEAD) (\S+)", req)
                    crawl.CURRENT_PAGE_PATH = mpath.group(1).decode("latin-1").split("?")[0] if mpath else "/"
                entries = crawl.entries_if_menu(view, resp, v)
            except Exception as e:  # parser of the listing
                chk.witness("C05/listing-unreadable:%s:%s" % (fam, type(e).__name__), dict(sample, error=repr(e)))
                continue
            if entries is None:
                continue
            if v.klass == "any":
                chk.count("archive_listings_descended")
            for e in entries:
                if e.local is None:
                    chk.count("info_lines")
                    continue
                if not e.local:
                    if fam in ("gopher", "gopherp") and isinstance(e.raw, bytes) and re.match(rb"/?URL:[A-Za-z][A-Za-z0-9+.-]*://", e.raw) \
                            and not (e.url or b"").startswith(b"gopher://"):
                        # a URL: item of a Gopher menu points at *this* server, which answers it with a redirect page
                        # (scheme://... links: web pages, FTP sites -- what url.HTMLURLHandler documents; not mailto:/news:)
                        v_ = view[:-1] + "+" if (fam == "gopherp" and view.endswith(("!", "$"))) else view
                        r2, tls2 = reqs.render(v_, e.raw)
                        todo.append((r2, tls2, crawl.Entry("h", e.name, True, selector=e.raw, raw=e.raw), req[:80]))
                        chk.count("url_items_followed_through_gopher")
                        continue
                    chk.count("remote_or_url_links_not_followed")
                    continue
                wt = reqs.WAPTOP.rstrip("/").encode()
                if fam == "http" and (e.selector == wt or e.selector.startswith(wt + b"/")):
                    # documented: over HTTP the waptop path *is* the WAP view of the site
                    chk.count("http_links_shadowed_by_waptop_not_followed")
                    continue
                q = b"needle" if e.search and fam != "gemini" else None
                r2, tls2 = crawl.follow_request(view, e, q)
                todo.append((r2, tls2, e, req[:80]))
    if todo and followed >= MAX_LINKS:
        chk.count("crawl_truncated")


def _wap_prefix_clash(e: crawl.Entry) -> bool:
    return e.selector is not None and e.selector.startswith(b"/wap") and not e.selector.startswith(b"/wap/") \
        and e.selector != b"/wap"


def _nameclass(e: typing.Optional[crawl.Entry]) -> str:
    if e is None or e.selector is None:
        return "-"
    s = e.selector
    cls = []
    try:
        s.decode("utf-8")
        if any(c >= 0x80 for c in s):
            cls.append("utf8")
    except UnicodeDecodeError:
        cls.append("nonutf8")
    if b" " in s:
        cls.append("space")
    if any(c in s for c in b"?#%&+;=:@\"'<>|~"):
        cls.append("reserved")
    return "+".join(cls) or "plain"


def extra_names(rng, model: sites.SiteModel) -> None:
    """Names that sit next to the server's reserved words, and virtual-selector characters."""
    t = model.tree
    dirs = set()
    for n in ["wapiti.txt", "GEMINI-QUERYx.txt", "URLs.txt", "a|b.txt", "c?d.txt", "100% sure.txt", "x&y=z.txt",
              "semi;colon.txt", "quote\"d.txt", "tick'd.txt", "<angle>.txt", "hash#tag.txt", "plus+plus.txt",
              "archive;2019/old-x.txt", "archive/new-a.txt", "report.txt;1", "report.txt", "a+b dir/plus.txt", "a b dir/blank.txt",
              "q=1&r=2/amp.txt", "it's (here), really!/x.txt", "$cash*star/y.txt",
              # decomposed accents, Hangul jamo, the Angstrom and Ohm signs (names as they are, not as some normal form)
              "cafe\u0301.txt", "re\u0301sume\u0301/x.txt", "\u1112\u1161\u11ab.txt", "\u212bngstrom \u2126.txt",
              # 'URL:' in a later path component, or inside a name, is just part of a name
              "refs/URL:list.txt", "refs/cURL:howto.txt", "refs/URL:mirror/x.txt", "refs/see URL:http:here.txt",
              "report {final}.txt", "{drafts}/x.txt", "a}b.txt", "{}", "{0}.txt", "%(name)s.txt", "%s%d.txt",
              "a b 12", "back\\slash.txt", "tilde~.txt", "colon:name.txt", "@at.txt", "sub dir/in ner.txt",
              "wapdir/inner.txt", "café d/été.txt", "wap/notes.txt", "wap/phones/list.txt", "sale%20off.txt", "a%41.txt",
              "pct%2Fdir/50%25.txt", "form\x0cfeed.txt", "vt\x0btab.txt", "fs\x1csep.txt", "nel\u0085next.txt", "ls\u2028sep.txt",
              "ff\x0cdir/inner.txt",
              # names whose last character is white space (a blank, a no-break space, an ideographic space)
              "draft ", "old stuff /inner.txt", "nbsp\u00a0", "wide\u3000"]:
        data = "content of %s\n" % n
        t.file(n, data)
        model.add(b"/" + n.encode(), "doc", data.encode(), mime="text/plain" if n.endswith(".txt") else None, tags=["file", "extra"])
        parts = n.split("/")[:-1]
        for i in range(len(parts)):
            dirs.add("/".join(parts[:i + 1]))
    # mailboxes whose own path contains the virtual-argument separators
    mb = trees.make_mbox(["Sep one", "Sep two"], "/var/tmp")
    for n in ("team|list.mbox", "who?.mbox", "in|out/box.mbox"):
        t.file(n, mb)
        model.add(b"/" + n.encode(), "doc", None, tags=["file", "extra", "mbox-with-separator"])
    model.add(b"/in|out", "menu", tags=["dir", "extra"])
    t.subtree("mail|dir", trees.maildir_tree(["Sep maildir"], where="cur"))
    # link files of the top-level directory: relative paths resolve against '/' (no doubled slash)
    if b".Links" not in t.nodes:
        t.file(".Links", "Name=Root relative file\nType=0\nPath=umn/one.txt\n\nName=Root relative dir\nType=1\nPath=umn\n\n"
                         "Name=Root dot relative\nType=0\nPath=./umn/two.txt\n")
    # names at the file system's length limit: the mailbox is fine, a *virtual* selector built on it is longer than
    # any file name may be (the look-up of 'name|/MBOX-MESSAGE/1' as a path fails with ENAMETOOLONG, not ENOENT)
    t.file("L" * 250 + ".mbox", mb)
    t.subtree("M" * 255, trees.maildir_tree(["Long maildir"], where="cur"))
    # a healthy directory that also holds something whose inspection fails with an unusual errno (ELOOP)
    t.file("looped/one.txt", "one\n")
    t.symlink("looped/self", "self")
    t.symlink("looped/a", "b")
    t.symlink("looped/b", "a")
    model.add(b"/looped", "menu", tags=["dir", "extra"])
    # a legal path whose percent-encoded URL is longer than 8 KB (non-ASCII names triple in length)
    deep = "/".join(["\u00e9" * 100 + str(i) for i in range(14)])
    t.file(deep + "/bottom.txt", "bottom of the deep tree\n")
    t.file(b"lat\xe9n/f\xefle.txt", b"latin1 names\n")
    model.add(b"/lat\xe9n/f\xefle.txt", "doc", b"latin1 names\n", mime="text/plain", tags=["file", "extra"])
    model.add(b"/lat\xe9n", "menu", tags=["dir", "extra"])
    for d in sorted(dirs):
        model.add(b"/" + d.encode(), "menu", tags=["dir", "extra"])


def main() -> int:
    chk = Check("C05", "exploration")
    quick = chk.tier == "quick"
    if not quick and chk.args.shard is None:
        common.run_shards(chk, "vf.checks.c05", 16, timeout=2400)
    else:
        nsites = 4 if quick else 12
        with Scratch("c05") as sc:
            for i in range(nsites):
                rng = chk.subrng("site", i)
                model = sites.gen_site(rng, sc.path, nfiles=14, gm_style=sites.GM_STYLES[i % 4])
                if i % 2 == 0:
                    extra_names(rng, model)
                root = sc.sub("root%d" % i)
                model.tree.materialize(root)
                # where the operator put the WAP view: the shipped /wap, the same with a slash at the end, elsewhere
                waptop = ["/wap", "/wap/", "/wap", "/mobile/wml"][i % 4]
                chk.count("sites_with_waptop:" + waptop)
                for hl_name, hl in (("default", None), ("full", driver.HANDLERS_FULL)):
                    site = driver.Site(root, handlers=hl, overrides={("protocols.wap.WAPProtocol", "waptop"): waptop})
                    reqs.WAPTOP = waptop
                    try:
                        kind_of: typing.Dict[bytes, str] = {}
                        for view in CRAWL_VIEWS:
                            if quick and view in ("gophers", "https") and i % 2:
                                continue
                            crawl_site(chk, site, view, kind_of, "%s:site%d" % (hl_name, i))
                    finally:
                        reqs.WAPTOP = "/wap"
                        site.close()
    return chk.finish(
        rule="case = one link taken from a listing the server produced and followed exactly as a client of that "
             "protocol would (crawl of the whole site from / per protocol, at most once per link); the reply must be "
             "a success from the same protocol and of the advertised kind (Gopher type; for URL protocols the kind "
             "seen for the same selector in the Gopher crawl). distinct = (view, handler list, advertised type, "
             "served kind, name class)",
        assumptions=["remote entries, URL: links and informational lines are counted, not followed",
                     "type-7 links are followed with a query (Gemini: must prompt)",
                     "reserved name spaces the documents give to the protocols: a root entry called exactly 'wap' is "
                     "followed in every protocol except HTTP/HTTPS (where /wap is by documentation the WAP view of the "
                     "site); selectors starting 'URL:' and '/PYGOPHERD-HTTPPROTO-ICONS/' are not used as content names"])


if __name__ == "__main__":
    common.main_wrapper(main)
