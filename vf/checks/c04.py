"""C04 -- documents are delivered byte-for-byte with truthful length and type."""
from __future__ import annotations

import html
import os
import re
import typing

from vf import common, driver, mimeref, parsers, reqs, trees, validate
from vf.common import Check, Scratch
from vf.trees import Tree

WML_HEAD = (b'<?xml version="1.0"?>\n<!DOCTYPE wml PUBLIC "-//WAPFORUM//DTD WML 1.1//EN"\n'
            b'"http://www.wapforum.org/DTD/wml_1.1.xml">\n<wml>\n'
            b'<card id="index" title="Text File" newcontext="true">\n<p>\n')
WML_TAIL = b"</p>\n</card>\n</wml>\n"


def wml_inverse(body: bytes) -> typing.Optional[typing.List[str]]:
    """Undo the documented text -> WML conversion: lines, html-unescaped; an empty
    line was written as a paragraph break.  The frame is located structurally (a card
    whose first paragraph holds the text), not by its exact bytes."""
    import re
    c = body.find(b"<card")
    if c < 0:
        return None
    ps = body.find(b"<p>\n", c)
    m = re.search(rb"</p>\s*</card>\s*</wml>\s*$", body)
    if ps < 0 or not m or m.start() < ps + 4:
        return None
    inner = body[ps + 4:m.start()]
    inner = inner.replace(b"</p>\n<p>", b"\n")
    if inner == b"":
        return []
    if not inner.endswith(b"\n"):
        return None
    lines = inner[:-1].split(b"\n")
    out = []
    for ln in lines:
        if b"<" in ln or b">" in ln:
            return None  # markup that is not the frame
        out.append(html.unescape(ln.decode("utf-8", "surrogateescape")))
    return out


def text_lines(data: bytes) -> typing.List[str]:
    """What a line-oriented reader sees, after the right-strip the converter documents
    (trailing blanks are not representable in WML text)."""
    if data == b"":
        return []
    parts = data.split(b"\n")
    if parts[-1] == b"":
        parts.pop()
    return [p.decode("utf-8", "surrogateescape").rstrip() for p in parts]


class Case:
    def __init__(self, path: bytes, data: bytes, mime: str, served: bytes, tags: tuple):
        self.path, self.data, self.mime, self.served, self.tags = path, data, mime, served, tags


def check_doc(chk: Check, site: driver.Site, c: Case, view: str, tls_mode=None, minimal: bool = False) -> None:
    sel = b"/" + c.path
    fam = reqs.VIEWS[view][0]
    if fam in ("gopher", "gopherp") and reqs.gopher_ambiguous(sel):
        chk.count("skipped_ambiguous_gopher_selector")
        return
    req, tls = reqs.render(view, sel, minimal_path=minimal)
    if tls_mode == "real":
        if not tls:
            return
        tls = "real"
    resp = site.request(req, tls=tls)
    sample = {"view": view, "tls": str(tls), "file": c.path, "size": len(c.served), "tags": c.tags,
              "reply_head": resp.data[:100], "log": resp.log[:2]}
    key_tail = "%s:%s" % (view.rstrip("+s") if False else fam, "+".join(t for t in c.tags if t.startswith(("enc", "dec"))) or "plain")
    if resp.escaped or resp.hung or resp.tls_error or [e for e in resp.exceptions()]:
        chk.witness("C04/request-failed:%s" % key_tail, dict(sample, escaped=resp.escaped[:1], tls_error=resp.tls_error,
                                                             exceptions=resp.exceptions()))
        return
    v = validate.validate(resp, req, head=(view in ("httphead", "waphead")))
    if not v.ok or v.klass not in ("doc", "headonly"):
        chk.witness("C04/not-a-document-reply:%s" % key_tail, dict(sample, reason=v.reason, klass=v.klass))
        return
    want = c.served
    sizeclass = len(want) if len(want) < 20 else "%d%+d" % ((len(want) + 2048) // 4096 * 4096, len(want) - (len(want) + 2048) // 4096 * 4096)
    sig = (view + (":minimal-escaping" if minimal else ""), str(tls), sizeclass, c.tags)
    body = None
    mime = None
    if fam == "gopher":
        body = resp.data
    elif fam == "gopherp":
        d = v.parsed
        body = d["body"]
        if d["length"] >= 0 and d["length"] != len(want):
            chk.witness("C04/gopherplus-length:%s" % key_tail, dict(sample, length=d["length"]))
            return
        if d["length"] == -1:
            chk.count("gopherplus_dot_terminated_abstained")
            return
    elif fam in ("http", "wap"):
        d = v.parsed
        hdr = dict(d["headers"])
        mime = hdr.get("content-type", b"").decode("latin-1")
        if view in ("httphead", "waphead"):
            g = site.request(*reqs.render("http" if view == "httphead" else "wap", sel)[:1])
            try:
                gd = parsers.parse_http(g.data)
            except parsers.Malformed as e:
                chk.witness("C04/not-a-document-reply:%s" % key_tail, dict(sample, reason="GET counterpart of the HEAD: %s" % e,
                                                                          get_reply=g.data[:120]))
                return
            if gd["headers"] != d["headers"] or gd["status"] != d["status"]:
                chk.witness("C04/head-headers-differ-from-get", dict(sample, head=d["headers"], get=gd["headers"]))
                return
            if d["body"]:
                chk.witness("C04/head-has-body", sample)
                return
            chk.case(sig, None)
            want_mime = "text/vnd.wap.wml" if (view == "waphead" and c.mime == "text/plain") else c.mime
            if mime != want_mime:
                chk.witness("C04/mime:%s" % key_tail, dict(sample, advertised=mime, expected=want_mime))
            return
        body = d["body"]
        if fam == "wap" and c.mime == "text/plain":
            if mime != "text/vnd.wap.wml":
                chk.witness("C04/mime:wap-text", dict(sample, advertised=mime, expected="text/vnd.wap.wml"))
                return
            inv = wml_inverse(body)
            exp = text_lines(want)
            if inv != exp:
                bad = None
                if inv is not None:
                    bad = next((i for i, (a, b) in enumerate(zip(inv, exp)) if a != b), min(len(inv), len(exp)))
                chk.witness("C04/wml-not-invertible", dict(sample, first_bad_line=bad,
                                                           got=(inv or [None])[bad or 0:(bad or 0) + 2] if inv else body[-80:],
                                                           want=exp[bad or 0:(bad or 0) + 2]))
                return
            chk.case(sig, sample)
            return
    elif fam in ("gemini", "spartan"):
        d = v.parsed
        body = d["body"]
        mime = d["meta"].decode("latin-1")
    if body != want:
        n = next((i for i, (a, b) in enumerate(zip(body, want)) if a != b), min(len(body), len(want)))
        chk.witness("C04/body-differs:%s" % key_tail, dict(sample, got_len=len(body), want_len=len(want), first_diff=n,
                                                          got=body[max(0, n - 10):n + 30], want=want[max(0, n - 10):n + 30]))
        return
    if mime is not None and mime != c.mime:
        chk.witness("C04/mime:%s" % key_tail, dict(sample, advertised=mime, expected=c.mime))
        return
    chk.case(sig, sample if chk.evaluations % 61 == 0 else None)


def build_cases(rng, sizes, full: bool) -> typing.Tuple[Tree, typing.List[Case]]:
    t = Tree()
    cases: typing.List[Case] = []
    exts = mimeref.KNOWN_EXTS + mimeref.UNKNOWN_EXTS
    exts = [e for e in exts if e != ".html"]
    i = 0
    for size in sizes:
        for cc in trees.CONTENT_CLASSES:
            ext = ".txt" if (i % 3 == 0) else rng.choice(exts)
            name, ncls = trees.gen_name(rng, ext=ext)
            d = rng.choice([b"", b"docs/", b"docs/deep er/"])
            path = d + name
            if path in t.nodes or name.startswith(b"wap") or name.startswith(b"GEMINI-QUERY"):
                continue
            data = trees.gen_content(rng, size, cc)
            t.file(path, data)
            cases.append(Case(path, data, mimeref.mime_for_ext(ext), data, ("content:" + cc, "name:" + ncls, "ext:" + ext)))
            i += 1
    # names that look like URLs to a parser that is handed the bare name (scheme prefixes, fragment marks)
    for j, (nm, ext) in enumerate([("data:,annual-report", ".pdf"), ("data:text,figures", ".gif"), ("http:page", ".png"),
                                   ("file:x", ".pdf"), ("mailto:someone", ".gif"), ("a#frag", ".pdf"), ("URL:gopher", ".png"),
                                   ("C:drive", ".gif"), ("x;type=a", ".pdf")]):
        data = trees.gen_content(rng, 100 + j, "binary")
        path = rng.choice([b"", b"docs/"]) + (nm + ext).encode()
        t.file(path, data)
        cases.append(Case(path, data, mimeref.mime_for_ext(ext), data, ("content:binary", "name:urlish", "ext:" + ext)))
    # names that Unicode normalisation (or case folding) would change: a file is found under the bytes it is stored
    # under; two files whose names differ only in normalisation form are two files
    for j, nm in enumerate(["cafe\u0301", "caf\u00e9", "\u212bngstrom", "\u00c5ngstrom", "\uf900 compat", "\ufb01le", "\u1112\u1161\u11ab",
                            "\ud55c", "STRASSE", "stra\u00dfe", "i\u0307stanbul", "\u0130stanbul", "\u03a9 ohm", "\u2126 ohm"]):
        data = trees.gen_content(rng, 5000 + 1001 * j, "binary")
        path = b"both/" + (nm + ".bin").encode()
        t.file(path, data)
        cases.append(Case(path, data, mimeref.mime_for_ext(".bin"), data, ("content:binary", "name:normalisation-sensitive", "ext:.bin")))
    # paths near the limits: five levels of 240-byte names, a 255-byte name, a path whose percent-encoded form triples
    deep = b"/".join(bytes([97 + k]) * 240 for k in range(5))
    for path in (deep + b"/doc.pdf", b"N" * 251 + b".gif", b"/".join([("\u00e9" * 120).encode()] * 2) + b"/doc.png"):
        data = trees.gen_content(rng, 3000, "binary")
        t.file(path, data)
        ext = "." + path.rsplit(b".", 1)[-1].decode()
        cases.append(Case(path, data, mimeref.mime_for_ext(ext), data, ("content:binary", "name:long", "ext:" + ext)))
    # HTML documents whose bytes are no valid UTF-8 (in the title, before it, without any title)
    for nm, data in ((b"latin1.html", b"<html><head><title>Caf\xe9 au lait</title></head><body>d\xe9j\xe0 vu</body></html>\n"),
                     (b"late.html", b"<html><!-- \xff\xfe junk before the title -->" + b"x" * 9000 + b"<title>Late</title><body>ok</body></html>"),
                     (b"notitle.htm", b"<html><body>na\xefve, no title at all</body></html>"),
                     (b"cut.html", b"<html><title>half a multi-byte character \xe2\x82")):
        t.file(b"web/" + nm, data)
        cases.append(Case(b"web/" + nm, data, "text/html", data, ("content:html-not-utf8", "name:plain", "ext:." + nm.rsplit(b".", 1)[-1].decode())))
    # files that carry an archive's name (and beginning) without being one: a download cut short, an empty file,
    # a text file, an archive with junk appended after its end record -- still regular files, to be delivered as such
    whole = Tree().file("a.txt", "a\n" * 400).file("d/b.bin", trees.gen_content(rng, 6000, "binary")).to_zip()
    for nm, data in ((b"backup.zip", whole[:len(whole) * 6 // 10]), (b"head-only.zip", whole[:30]), (b"empty.zip", b""),
                     (b"text.zip", b"PK is how this sentence starts\n"), (b"end-record-only.zip", whole[-22:]),
                     (b"tail-cut.zip", whole[:-5])):
        t.file(b"broken/" + nm, data)
        cases.append(Case(b"broken/" + nm, data, mimeref.mime_for_ext(".zip"), data, ("content:not-an-archive", "name:plain", "ext:.zip")))
    # HTML documents (title handler) and encoded files
    for j, title in enumerate(["T", None, "a <b> & c"]):
        data = trees.html_doc(title) + trees.gen_content(rng, 5000 * j, "text")
        t.file("page%d.html" % j, data)
        cases.append(Case(b"page%d.html" % j, data, "text/html", data, ("content:html", "name:plain", "ext:.html")))
    if full:
        # documents produced by a template: what is sent is the expansion, not the file
        for j, filler in enumerate(["", "x" * 300, "y" * 5000]):
            path = b"tmpl/page%d.html.tal" % j
            tpl = '<html><body><p tal:content="selector">%s placeholder text that the expansion replaces</p><i>%s</i></body></html>' % ("z" * 200, filler)
            out = '<html><body><p>/%s</p><i>%s</i></body></html>' % (path.decode(), filler)
            t.file(path, tpl)
            cases.append(Case(path, tpl.encode(), "text/html", out.encode(), ("content:tal-template", "name:plain", "ext:.html.tal")))
    for j, size in enumerate([0, 1, 4096, 11000, 70000]):
        inner = trees.gen_content(rng, size, "crlf" if j % 2 else "binary")
        for enc, fn, comp in ((".gz", trees.gz, "gzip"), (".bz2", trees.bz, "bzip2")):
            for ext in (".txt", ".png"):
                path = b"enc/f%d%s%s" % (j, ext.encode(), enc.encode())
                packed = fn(inner)
                t.file(path, packed)
                if full and comp in eval(driver.decompressors_option()):
                    cases.append(Case(path, packed, mimeref.mime_for_ext(ext), inner, ("dec:" + comp, "ext:" + ext)))
                else:
                    cases.append(Case(path, packed, "application/octet-stream", packed, ("enc:" + comp, "ext:" + ext)))
    # compress(1) output: the one suffix of the standard encoding table that is written in upper case
    for j, nm in enumerate(["notes.txt.Z", "emacs.tar.Z", "core.Z", "REPORT.TXT.Z", "a.ps.Z"]):
        data = b"\x1f\x9d\x90" + trees.gen_content(rng, 3000 + 500 * j, "binary")
        t.file(b"enc/" + nm.encode(), data)
        cases.append(Case(b"enc/" + nm.encode(), data, "application/octet-stream", data, ("enc:compress", "ext:.Z")))
    return t, cases


def rewritten_documents(chk: Check, site: driver.Site, root: str) -> None:
    """A document is fetched, rewritten with another size, and fetched again at once (same process): length
    header, body and advertised size describe the file as it is now."""
    path = os.path.join(root, "rewritten.txt")
    sizes = [12, 10248, 1, 70000, 4096, 0, 4097]
    prev = None
    for k, n in enumerate(sizes):
        data = (b"version %d " % k) * (n // 10 + 1)
        data = data[:n]
        with open(path, "wb") as fp:
            fp.write(data)
        for view in ("gopherp+", "http", "gopher", "gopherps+", "gemini", "gopherp!"):
            req, tls = reqs.render(view, b"/rewritten.txt")
            r = site.request(req, tls=tls)
            chk.count("fetches_of_a_just_rewritten_document")
            v = validate.validate(r, req)
            sample = {"view": view, "size_now": n, "size_before": prev, "reply_head": r.data[:80], "reason": v.reason}
            if not v.ok:
                chk.witness("C04/rewritten-document:malformed-reply:%s" % reqs.VIEWS[view][0], sample)
                return
            if view == "gopherp!":
                m = re.search(rb": <(\d+)k>", r.data)
                if m and int(m.group(1)) != n // 1024:
                    chk.witness("C04/rewritten-document:stale-size-advertised", dict(sample, advertised_k=int(m.group(1))))
                    return
                continue
            body = r.data if view == "gopher" else v.parsed["body"]
            if body != data:
                chk.witness("C04/rewritten-document:body-differs:%s" % reqs.VIEWS[view][0], dict(sample, got_len=len(body)))
                return
            if reqs.VIEWS[view][0] == "gopherp" and v.parsed["length"] not in (len(data), -2):
                chk.witness("C04/rewritten-document:gopherplus-length", dict(sample, length=v.parsed["length"]))
                return
        prev = n
        chk.case(("rewritten", n), None)
    os.unlink(path)


def configured_encodings(chk: Check, sc: Scratch) -> None:
    """A site whose configuration replaces the encoding table (the documented 'override the default entirely' form)
    and whose mime.types gives the dropped suffixes a type of their own: the advertised types follow the configuration."""
    root = sc.sub("enc-root")
    mt = os.path.join(sc.path, "site-mime.types")
    with open(driver.MIME_TYPES, "rb") as fp:
        base = fp.read()
    with open(mt, "wb") as fp:
        fp.write(base + b"\napplication/gzip\t\t\tgz\napplication/x-compress\t\tz\n")
    files = {b"backup.gz": "application/gzip", b"dump.sql.gz": "application/gzip", b"old archive.Z": "application/x-compress",
             b"notes.txt.bz2": "application/octet-stream", b"plain.txt": "text/plain", b"picture.png": "image/png"}
    t = Tree()
    for k, nm in enumerate(files):
        t.file(nm, b"payload %d\n" % k * 30)
    t.materialize(root)
    site = driver.Site(root, overrides={("pygopherd", "encoding"): "[('.bz2', 'bzip2')]", ("pygopherd", "mimetypes"): mt})
    try:
        for nm, want in files.items():
            got = {}
            for view in ("http", "httphead", "gemini", "spartan", "gopherp!"):
                req, tls = reqs.render(view, b"/" + nm)
                r = site.request(req, tls=tls)
                chk.count("types_under_a_configured_encoding_table")
                if view in ("http", "httphead"):
                    try:
                        got[view] = dict(parsers.parse_http(r.data)["headers"]).get("content-type", b"").decode()
                    except parsers.Malformed:
                        got[view] = "?"
                elif view == "gopherp!":
                    m = re.search(rb"\+VIEWS:\r\n ([^:]+):", r.data)
                    got[view] = m.group(1).decode() if m else "?"
                else:
                    got[view] = r.data.split(b"\r\n", 1)[0].split(b" ", 1)[-1].decode("latin-1")
            wrong = {v: g for v, g in got.items() if g != want}
            if wrong:
                chk.witness("C04/mime:configured-encoding-table", {"file": nm, "expected": want, "advertised": wrong})
                return
            chk.case(("configured-encodings", nm), None)
    finally:
        site.close()


def run(chk: Check, sizes, nreal: int) -> None:
    with Scratch("c04") as sc:
        if chk.args.shard in (None, 0):
            configured_encodings(chk, sc)
        # log method: the request line (whatever bytes the name holds) is logged before anything is written
        plan = [("default", None, "file"), ("full", driver.HANDLERS_FULL, "syslog")]
        if chk.tier == "thorough":
            plan += [("default", None, "syslog"), ("full", driver.HANDLERS_FULL, "file"), ("default", None, "none")]
        for hl_name, hl, logmethod in plan:
            rng = chk.subrng(hl_name)
            t, cases = build_cases(rng, sizes, full=hl is not None)
            root = sc.sub("root-%s-%s" % (hl_name, logmethod))
            t.materialize(root)
            site = driver.Site(root, handlers=hl, tls_context=True, overrides={("logger", "logmethod"): logmethod})
            chk.count("sites_logging_to_" + logmethod)
            try:
                for c in cases:
                    for view in reqs.DOC_VIEWS:
                        check_doc(chk, site, c, view)
                    # the same document asked for by a client that escapes only what a URL path must escape
                    if any(ch in c.path for ch in b"!$&'()*+,;=:@"):
                        for view in ("http", "https", "wap", "gemini", "spartan", "httphead"):
                            check_doc(chk, site, c, view, minimal=True)
                            chk.count("fetches_with_minimal_escaping")
                rewritten_documents(chk, site, root)
                # genuine TLS for a subset: every size class once per TLS view
                seen = set()
                for c in cases:
                    k = (len(c.served), c.tags[0])
                    if k in seen or len(seen) >= nreal:
                        continue
                    seen.add(k)
                    for view in ("gophers", "gopherps+", "https", "gemini"):
                        check_doc(chk, site, c, view, tls_mode="real")
                        chk.count("real_tls_fetches")
            finally:
                site.close()


def main() -> int:
    chk = Check("C04", "exploration")
    if chk.tier == "thorough" and chk.args.shard is None:
        common.run_shards(chk, "vf.checks.c04", 16, timeout=2400)
    elif chk.tier == "thorough":
        run(chk, trees.SIZE_CLASSES_THOROUGH, nreal=200)
    else:
        run(chk, trees.SIZE_CLASSES_QUICK, nreal=40)
    return chk.finish(
        rule="case = one document fetched through one protocol view over a real socket (mock or genuine TLS) and "
             "compared byte-for-byte with the bytes the harness wrote (decompressed bytes when the decompressing "
             "handler is configured), Gopher+ length vs body length, HEAD vs GET headers, advertised type vs the "
             "configured mime.types; distinct = (view, TLS mode, size class relative to the 4096-byte copy block, "
             "content class, name class, extension)",
        assumptions=["WML inversion compares lines after the right-strip the converter applies (trailing blanks are "
                     "not representable in WML text)",
                     "extensions limited to those defined by the configured mime.types file or by no table"])


if __name__ == "__main__":
    common.main_wrapper(main)
