"""C18 - simpleTAL never lets data become markup, code or leftover state.

(a) canary payloads in every context value: without `structure` no xss-* element / onx-*
    attribute may be parsed out of the output, and its element/attribute-name skeleton
    equals the skeleton obtained with inert data of the same shape;
(b) python: expressions with an observable side effect (append to a harness list, create
    a file / directory in a scratch dir, audit events exec/compile of code named <string>)
    are never evaluated with allowPythonPath=0, nor through TALFileHandler with
    `allowpythonpath = false`; they ARE evaluated when enabled (proves the canaries work);
(c) TAL-free documents from a document grammar: events(expand(D)) == events(D) and
    expand(expand(D)) == expand(D) byte for byte;
(d) after any expansion the caller's Context holds the variables it held before (user
    globals by identity, locals, local-stack and repeat-stack depth, empty repeat map);
    only names of explicit `global` defines may be added or changed.
"""
from __future__ import annotations

import io
import logging
import os
import sys
import traceback

import vf  # noqa: F401
from vf import talref
from vf.checks.c17 import DoesNotTerminate, StepBudget
from vf.common import Check, Scratch, main_wrapper, run_shards

from simpletal import simpleTAL, simpleTALES  # noqa: E402

#         canary  python  handler  docs  restore
SIZES = {"quick": (3000, 300, 24, 3000, 3000), "thorough": (60000, 1500, 60, 60000, 60000)}  # thorough: per shard


class Audit:
    """exec / compile audit events for code named <string>, while armed."""
    armed = False
    events = 0

    @classmethod
    def hook(cls, event, args):
        # only code that mentions the harness's side-effect target ("hit"): the server
        # itself evaluates configuration values with eval()
        if not cls.armed:
            return
        if event == "compile" and len(args) > 1 and args[1] == "<string>":
            src = args[0]
            if isinstance(src, (str, bytes)) and (b"hit" if isinstance(src, bytes) else "hit") in src:
                cls.events += 1
        elif event == "exec" and args and getattr(args[0], "co_filename", None) == "<string>":
            if "hit" in repr(args[0].co_consts + args[0].co_names):
                cls.events += 1


def site_of(e: BaseException) -> str:
    tb = traceback.extract_tb(e.__traceback__)
    return "%s@%s" % (type(e).__name__, next((f.name for f in reversed(tb) if "simpletal" in f.filename), "?"))


def report_exception(chk: Check, e: BaseException, detail: dict) -> None:
    if isinstance(e, DoesNotTerminate):     # not what C18 states: never folded into held or violated
        chk.note_inconclusive("an expansion exceeded the step guard (%s)" % e)
    else:
        chk.witness("C18/exception:" + site_of(e), dict(detail, message=str(e)[:200]))


def new_context(values: dict, allow_python: int = 0):
    ctx = simpleTALES.Context(allowPythonPath=allow_python)
    for k, v in values.items():
        ctx.addGlobal(k, v)
    return ctx


def expand(text: str, ctx, lib: str = None) -> str:
    # harness hygiene (see c17.run_case): drop the frames retained by the singleton exception
    simpleTALES.PATHNOTFOUNDEXCEPTION.__traceback__ = None
    if lib is not None:
        ctx.addGlobal("lib", simpleTAL.compileHTMLTemplate(lib))
    tpl = simpleTAL.compileHTMLTemplate(text)
    ctx.addGlobal("page", tpl)
    out = io.StringIO()
    tpl.expand(ctx, out)
    return out.getvalue()


def gen_templates(rng, structure: bool):
    gen = talref.TemplateGen(rng, max_depth=rng.randint(2, 4), structure=structure, metal=rng.random() < 0.5)
    lib = gen.gen_lib() if gen.use_metal and rng.random() < 0.7 else None
    page = gen.gen_page()
    cmds = tuple(sorted({c for s in gen.subsets for c in s} | (gen.used & {"use-macro", "fill-slot"})))
    return gen, (talref.variants(lib)[1] if lib else None), talref.variants(page)[1], cmds


# ------------------------------------------------------------------ (a) canaries ----
def injected(ev: list) -> list:
    return [e[:2] for e in ev if (e[0] in "SE" and e[1].startswith("xss-"))
            or (e[0] == "S" and any(k.startswith("onx-") for k, _ in e[2]))]


def canary_case(chk: Check, i: int) -> None:
    rng = chk.subrng("canary", i)
    hostile = talref.Schema(rng, "hostile")
    gen, lib, page, cmds = gen_templates(rng, structure=False)
    detail = {"sub": "canary", "case": i, "case_seed": chk.seed, "lib": lib, "page": page, "context": hostile.vals}
    try:
        out_h = expand(page, new_context(hostile.build()), lib)
        out_i = expand(page, new_context(hostile.inert().build()), lib)
    except Exception as e:
        report_exception(chk, e, detail)
        return
    ev_h = talref.events(out_h)
    bad = injected(ev_h)
    chk.count("canary_outputs_parsed")
    chk.count("canary_payload_occurrences_in_output_text", sum(out_h.count(c) for c in ("xss-7", "onx-7")))
    if bad:
        chk.witness("C18/data-became-markup", dict(detail, injected=bad[:4], output=out_h[:800]))
    elif talref.skeleton(ev_h) != talref.skeleton(talref.events(out_i)):
        d = talref.first_diff(talref.skeleton(ev_h), talref.skeleton(talref.events(out_i)))
        chk.witness("C18/skeleton-depends-on-data", dict(detail, first_difference=d, output=out_h[:800],
                                                         inert_output=out_i[:800]))
    n = sum(1 for e in ev_h if e[0] == "S")
    chk.case(("canary", cmds, "no-elements" if not n else "elements"),
             {"sub": "canary", "page": page[:300], "output": out_h[:300]})


def canary_controls(chk: Check) -> None:
    """Positive control: with `structure` the payload MUST come out as markup."""
    vals = {"s1": talref.CANARIES[0]}
    for tpl in ('<p tal:content="structure s1">x</p>', '<p tal:replace="structure s1">x</p>'):
        if injected(talref.events(expand(tpl, new_context(vals)))):
            chk.count("canary_structure_controls_detected")
    if chk.counters.get("canary_structure_controls_detected", 0) < 2:
        chk.note_inconclusive("the canary detector did not see the payload in a `structure` control")


class _Text:
    """An object that is no string but prints as one."""

    def __init__(self, text):
        self.text = text

    def __str__(self):
        return self.text


def canary_directed(chk: Check) -> None:
    """Directed family for (a): plain hostile data named in *every* attribute that takes an expression, the METAL ones
    included (metal:use-macro of something that is no macro must not pour it into the page)."""
    vals = {"s1": talref.CANARIES[0], "d1": {"k": talref.CANARIES[1 % len(talref.CANARIES)]}, "seq": list(talref.CANARIES),
            # the same text as values of other types (what a file read in binary mode, a number-like or a custom object gives)
            "b1": talref.CANARIES[0].encode(), "bl": [c.encode() for c in talref.CANARIES], "o1": _Text(talref.CANARIES[0]),
            "ba": bytearray(talref.CANARIES[0].encode())}
    shapes = ['<div metal:use-macro="%s">static</div>', '<div metal:use-macro="%s | nothing">static</div>',
              '<div metal:use-macro="%s"><b metal:fill-slot="x">filled</b></div>',
              '<p tal:content="%s">x</p>', '<p tal:replace="%s">x</p>', '<p tal:attributes="title %s" title="t">x</p>',
              '<p tal:define="v %s" tal:content="v">x</p>', '<p tal:define="global gv %s">x</p><i tal:content="gv">g</i>',
              '<p tal:content="string:a ${%s} b">x</p>', '<p tal:condition="%s">shown</p>', '<p tal:omit-tag="%s">kept</p>',
              '<p tal:content="nosuch | %s">x</p>', '<p tal:attributes="class string:c-${%s}; id %s">x</p>']
    for shape in shapes:
        for expr in ("s1", "d1/k", "seq/0", "b1", "bl/0", "o1", "ba"):
            if expr in ("b1", "bl/0", "o1", "ba") and "use-macro" in shape:
                continue
            tpl = "<html><body>%s</body></html>" % (shape.replace("%s", expr))
            detail = {"sub": "canary-directed", "case_seed": chk.seed, "page": tpl}
            try:
                out = expand(tpl, new_context(vals))
            except Exception as e:
                report_exception(chk, e, detail)
                continue
            chk.count("canary_directed_cases")
            bad = injected(talref.events(out))
            if bad:
                chk.witness("C18/data-became-markup", dict(detail, injected=bad[:4], output=out[:600]))
            chk.case(("canary-directed", shape[:24], expr), detail if expr == "s1" and shape.startswith("<div") else None)
    # the same on every kind of element: the ones whose content an HTML parser reads as raw text or as
    # replaceable character data (a value there has to close the element before it can become markup), void and
    # table elements, upper-case and namespaced names
    for tag in ("script", "style", "textarea", "title", "pre", "xmp", "noscript", "iframe", "option", "td", "a", "SCRIPT",
                "Style", "svg:text", "code", "template"):
        closer = "</%s><xss-7 onx-7=1>" % tag
        tvals = {"s1": closer, "d1": {"k": "]]>" + closer}, "seq": [closer, "<!--" + closer, "&" + closer]}
        for shape in ('<%T tal:content="%s">x</%T>', '<%T><b tal:replace="%s">x</b></%T>', '<%T tal:attributes="title %s">x</%T>',
                      '<%T tal:content="string:a ${%s} b">x</%T>', '<%T tal:define="v %s" tal:content="v">x</%T>',
                      '<%T tal:repeat="r seq" tal:content="r">x</%T>', '<%T tal:content="nosuch | %s">x</%T>',
                      '<%T tal:condition="%s" tal:content="%s">x</%T>'):
            for expr in ("s1", "d1/k", "seq/1"):
                tpl = "<html><head></head><body>%s</body></html>" % shape.replace("%T", tag).replace("%s", expr)
                detail = {"sub": "canary-directed-elements", "case_seed": chk.seed, "page": tpl}
                try:
                    out = expand(tpl, new_context(tvals))
                except Exception as e:
                    report_exception(chk, e, detail)
                    continue
                chk.count("canary_directed_element_cases")
                bad = injected(talref.events(out))
                if bad or "<xss-7" in out:
                    chk.witness("C18/data-became-markup", dict(detail, injected=bad[:4], output=out[:600],
                                                               why="the value's own '<' reached the output unescaped"))
                chk.case(("canary-directed-elements", tag.lower(), shape[4:24]), detail if expr == "s1" and tag == "script" else None)
    tpl = '<ul><li tal:repeat="x seq" tal:content="x">i</li><li tal:repeat="y seq" tal:attributes="title y">i</li></ul>'
    out = expand(tpl, new_context(vals))
    if injected(talref.events(out)):
        chk.witness("C18/data-became-markup", {"sub": "canary-directed", "page": tpl, "output": out[:600]})


# --------------------------------------------------------------- (b) python: gate ----
POSITIONS = ("content", "replace", "condition", "define", "repeat", "attributes", "omit-tag",
             "string-sub", "alternation", "not", "structure")


def python_template(rng, n: int, scratch: str):
    """-> (template, position, effect, probe) where probe() says whether the side effect happened."""
    effect = rng.choice(["list", "file", "mkdir"])
    target = os.path.join(scratch, "hit-%d" % n)
    code = {"list": "hits.append(%d)" % n, "file": "open('%s', 'w').close()" % target,
            "mkdir": "__import__('os').mkdir('%s')" % target}[effect]
    expr = "python:" + rng.choice(["", " "]) + code
    pos = rng.choice(POSITIONS)
    att = {"content": 'tal:content="%s"', "replace": 'tal:replace="%s"', "condition": 'tal:condition="%s"',
           "define": 'tal:define="pv %s"', "repeat": 'tal:repeat="pi %s"', "attributes": 'tal:attributes="title %s"',
           "omit-tag": 'tal:omit-tag="%s"', "structure": 'tal:content="structure %s"'}.get(pos)
    if att:
        att = att % expr
    elif pos == "string-sub":
        att = 'tal:content="string:a ${%s} b"' % expr
    elif pos == "alternation":
        att = 'tal:content="nope | %s"' % expr
    else:
        att = 'tal:condition="not:%s"' % expr
    inner = "<p %s class='k'>body</p>" % att
    wrap = rng.choice(["%s", "<div tal:repeat='q two'>%s</div>", "<div tal:condition='one' tal:define='z one'><b>%s</b></div>",
                       "<ul><li tal:repeat='q two' tal:omit-tag=''>%s</li></ul>"])
    return "<html><body>" + wrap % inner + "</body></html>", pos, effect, target


def python_cases(chk: Check, scratch: Scratch, count: int) -> None:
    rng = chk.subrng("python")
    sdir = scratch.sub("py")
    for n in range(count):
        tpl, pos, effect, target = python_template(rng, n, sdir)
        # disabled, enabled, and disabled again: the same expression text must stay refused after an
        # enabled context in the same process has evaluated it (no state shared between contexts)
        for allow in (0, 1, 0):
            hits: list = []
            ctx = new_context({"hits": hits, "two": [1, 2], "one": 1}, allow)
            Audit.events, Audit.armed = 0, True
            try:
                out = expand(tpl, ctx)
            except Exception as e:
                report_exception(chk, e, {"sub": "python", "template": tpl, "allow": allow})
                continue
            finally:
                Audit.armed = False
            happened = bool(hits) or os.path.lexists(target)
            chk.count("python_expressions_attempted_allow=%d" % allow)
            if allow:
                chk.count("python_evaluated_when_enabled", 1 if happened else 0)
                chk.count("python_audit_events_when_enabled", Audit.events)
            elif happened or Audit.events:
                chk.witness("C18/python-evaluated-with-allowPythonPath-0", {
                    "sub": "python", "case_seed": chk.seed, "template": tpl, "position": pos, "effect": effect,
                    "side_effect_observed": happened, "audit_events": Audit.events, "output": out[:300]})
            else:
                chk.count("python_blocked_when_disabled")
            if os.path.isdir(target):
                os.rmdir(target)
            elif os.path.lexists(target):
                os.unlink(target)
            chk.case(("python", pos, effect, allow), {"sub": "python", "template": tpl, "allow": allow,
                                                      "side_effect": happened} if n < 2 else None)


# the order documented in the shipped configuration: TAL before the HTML title handler
HANDLERS = "[url.HTMLURLHandler, UMN.UMNDirHandler, tal.TALFileHandler, html.HTMLFileTitleHandler, file.FileHandler]"


def handler_cases(chk: Check, scratch: Scratch, count: int) -> None:
    """The same gate through pygopherd.handlers.tal.TALFileHandler and its config option."""
    from vf import driver

    rng = chk.subrng("handler")
    root, sdir = scratch.sub("root"), scratch.sub("hpy")
    replay: list = []
    # every spelling the configuration parser accepts for a boolean
    for setting, expect in (("false", False), ("off", False), ("0", False), ("no", False), ("OFF", False), ("False", False), ("No", False),
                            ("true", True), ("on", True), ("1", True), ("yes", True)):
        site = driver.Site(root, handlers=HANDLERS,
                           overrides={("handlers.tal.TALFileHandler", "allowpythonpath"): setting})
        try:
            for n in range(max(6, count // 3) if not expect else max(3, count // 8)):
                while True:
                    tpl, pos, effect, target = python_template(rng, n, sdir)
                    if effect != "list":        # the handler's context has no harness list
                        break
                tpl = tpl.replace("'q two'", "'q python:[1,2]'" if expect else "'q string:ab'").replace(
                    "'one'", "'selector'")
                name = "t%d.html.tal" % n
                with open(os.path.join(root, name), "w") as fp:
                    fp.write(tpl)
                Audit.events, Audit.armed = 0, True
                try:
                    resp = site.request(b"/" + name.encode() + b"\r\n")
                finally:
                    Audit.armed = False
                happened = os.path.lexists(target)
                chk.count("handler_requests_allowpythonpath=%s" % setting)
                if b"body" not in resp.data and b"<html>" not in resp.data:
                    chk.count("handler_requests_without_template_output")
                    continue
                if expect:
                    chk.count("handler_python_evaluated_when_enabled", 1 if happened else 0)
                elif happened or Audit.events:
                    chk.witness("C18/python-evaluated-through-TALFileHandler-with-allowpythonpath-false", {
                        "sub": "handler", "case_seed": chk.seed, "template": tpl, "position": pos, "side_effect_observed": happened,
                        "audit_events": Audit.events, "response": resp.data[:300]})
                else:
                    chk.count("handler_python_blocked_when_disabled")
                if os.path.isdir(target):
                    os.rmdir(target)
                elif os.path.lexists(target):
                    os.unlink(target)
                os.unlink(os.path.join(root, name))
                if expect:
                    replay.append((name, tpl, pos, target))
                chk.case(("handler", pos, effect, setting), None)
        finally:
            site.close()
    # the very templates that were just evaluated with the option on, now with the option off
    site = driver.Site(root, handlers=HANDLERS, overrides={("handlers.tal.TALFileHandler", "allowpythonpath"): "false"})
    try:
        for name, tpl, pos, target in replay:
            with open(os.path.join(root, name), "w") as fp:
                fp.write(tpl)
            Audit.events, Audit.armed = 0, True
            try:
                resp = site.request(b"/" + name.encode() + b"\r\n")
            finally:
                Audit.armed = False
            happened = os.path.lexists(target)
            chk.count("handler_requests_off_after_on")
            if happened or Audit.events:
                chk.witness("C18/python-evaluated-through-TALFileHandler-with-allowpythonpath-false", {
                    "sub": "handler-off-after-on", "case_seed": chk.seed, "template": tpl, "position": pos,
                    "side_effect_observed": happened, "audit_events": Audit.events, "response": resp.data[:300]})
            if os.path.isdir(target):
                os.rmdir(target)
            elif os.path.lexists(target):
                os.unlink(target)
            os.unlink(os.path.join(root, name))
    finally:
        site.close()


# --------------------------------------------------------------- (c) pass-through ----
def passthrough_case(chk: Check, i: int) -> None:
    rng = chk.subrng("doc", i)
    dg = talref.DocGen(rng, cdata_meta=rng.random() < 0.04)
    written, safe = talref.variants(dg.gen())

    def problem(doc: str):
        try:
            once = expand(doc, new_context({}))
            twice = expand(once, new_context({}))
        except Exception as e:
            return {"exception": site_of(e), "message": str(e)[:200]}
        d = talref.first_diff(talref.events(once), talref.events(doc))
        if d:
            return {"not_equivalent": {"event_index": d[0], "expanded": d[1], "document": d[2]}, "expanded": once[:600]}
        if twice != once:
            return {"not_a_fixed_point": True, "once": once[:600], "twice": twice[:600]}
        return None

    p = problem(written)
    chk.count("documents_expanded")
    if p:
        key = "C18/passthrough-" + ("exception:" + p["exception"] if "exception" in p else
                                    "not-equivalent" if "not_equivalent" in p else "not-a-fixed-point")
        if written != safe and problem(safe) is None:
            key = "C18/passthrough-script-style-content-escaped"
        chk.witness(key, {"sub": "passthrough", "case": i, "case_seed": chk.seed, "document": written, "problem": p})
    chk.case(("doc", tuple(sorted(dg.used)), len(written) // 200), {"sub": "passthrough", "document": written[:300]})


# -------------------------------------------------------- (d) context restoration ----
def snapshot(ctx) -> dict:
    return {"globals": {k: id(v) for k, v in ctx.globals.items() if k not in ("attrs", "repeat")},
            "locals": {k: id(v) for k, v in ctx.locals.items()},
            "local_stack_depth": len(ctx.localStack), "repeat_stack_depth": len(ctx.repeatStack),
            "repeat_map_empty": not ctx.repeatMap, "repeat_global_empty": not ctx.globals.get("repeat")}


def restore_case(chk: Check, i: int) -> None:
    rng = chk.subrng("restore", i)
    schema = talref.Schema(rng)
    gen, lib, page, cmds = gen_templates(rng, structure=True)
    simpleTALES.PATHNOTFOUNDEXCEPTION.__traceback__ = None
    ctx = new_context(schema.build())
    ctx.setLocal("uloc", "user local")
    detail = {"sub": "restore", "case": i, "case_seed": chk.seed, "lib": lib, "page": page, "context": schema.vals}
    try:
        tpls = {"lib": simpleTAL.compileHTMLTemplate(lib)} if lib else {}
        tpls["page"] = simpleTAL.compileHTMLTemplate(page)
        for k, v in tpls.items():
            ctx.addGlobal(k, v)
        before = snapshot(ctx)
        tpls["page"].expand(ctx, io.StringIO())
    except Exception as e:
        report_exception(chk, e, detail)
        return
    after = snapshot(ctx)
    chk.count("contexts_snapshotted")
    diffs = {}
    for k in set(before["globals"]) | set(after["globals"]):
        if before["globals"].get(k) != after["globals"].get(k) and k not in gen.global_defs:
            diffs["global " + k] = "added" if k not in before["globals"] else \
                "removed" if k not in after["globals"] else "rebound"
    if any(k in after["globals"] for k in gen.global_defs):
        chk.count("explicit_global_defines_observed")
    for k in before:
        if k != "globals" and before[k] != after[k]:
            diffs[k] = {"before": sorted(before[k]) if isinstance(before[k], dict) else before[k],
                        "after": sorted(after[k]) if isinstance(after[k], dict) else after[k]}
    if diffs:
        chk.witness("C18/context-not-restored", dict(detail, differences=diffs))
    feats = tuple(sorted(gen.used & {"repeat-nothing", "define-global", "repeat-iterator", "use-macro", "alternation"}))
    for f in feats:
        chk.count("restore_cases_with:" + f)
    chk.case(("restore", cmds, feats), {"sub": "restore", "page": page[:300]} if i < 2 else None)


def restore_directed(chk: Check) -> None:
    """Directed family for (d): an element that both defines a local and takes its content (or replacement) from a
    *template object* found in the context (`structure` of a compiled template runs that template in place)."""
    subs = {"plain": '<b tal:content="uloc">u</b>', "defines": '<b tal:define="inner string:i" tal:content="inner">u</b>',
            "repeats": '<b tal:repeat="k seq" tal:content="k">u</b>', "empty": ""}
    shapes = ['<h1 tal:define="title string:T" tal:content="structure sub">h</h1><p tal:content="title | string:unset">p</p>',
              '<h1 tal:define="title string:T" tal:replace="structure sub">h</h1><p tal:content="title | string:unset">p</p>',
              '<ul><li tal:repeat="x seq" tal:define="t x" tal:content="structure sub">l</li></ul><p tal:content="t | string:unset">p</p>',
              '<div tal:define="a string:A"><h1 tal:define="b string:B" tal:content="structure sub">h</h1><i tal:content="b | string:unset">i</i>'
              '<i tal:content="a">a</i></div><p tal:content="a | string:unset">p</p>',
              '<h1 tal:define="t string:T" tal:condition="nothing" tal:content="structure sub">h</h1><p tal:content="t | string:unset">p</p>',
              '<h1 tal:define="t string:T" tal:content="structure sub" tal:omit-tag="">h</h1><p tal:content="t | string:unset">p</p>']
    for sname, sub in subs.items():
        for k, shape in enumerate(shapes):
            page = "<html><body>%s</body></html>" % shape
            simpleTALES.PATHNOTFOUNDEXCEPTION.__traceback__ = None
            ctx = new_context({"seq": ["s1", "s2", "s3"]})
            ctx.setLocal("uloc", "user local")
            detail = {"sub": "restore-directed", "case_seed": chk.seed, "page": page, "included_template": sub}
            try:
                ctx.addGlobal("sub", simpleTAL.compileHTMLTemplate(sub))
                before = snapshot(ctx)
                out = io.StringIO()
                simpleTAL.compileHTMLTemplate(page).expand(ctx, out)
            except Exception as e:
                report_exception(chk, e, detail)
                continue
            after = snapshot(ctx)
            chk.count("directed_restore_cases")
            diffs = {k2: {"before": before[k2], "after": after[k2]} for k2 in before if before[k2] != after[k2]}
            text = out.getvalue()
            if diffs:
                chk.witness("C18/context-not-restored", dict(detail, differences={k2: str(v)[:200] for k2, v in diffs.items()}))
            elif "unset" not in text:
                chk.witness("C18/local-define-visible-after-its-element", dict(detail, output=text[:300]))
            chk.case(("restore-directed", sname, k), detail if k == 0 and sname == "plain" else None)


RULE = ("distinct per sub-check: (a) (commands used, output has elements); (b) (position of the python: "
        "expression, kind of side effect, gate on/off, direct|handler); (c) (document-grammar constructs "
        "used, size bucket); (d) (commands used, {empty/missing repeat, global define, iterator, macro, "
        "alternation} present)")
ASSUMPTIONS = [
    "the interpreter-owned `attrs` global is not compared (rewritten on every evaluation by design); "
    "`repeat` is compared by emptiness only",
    "inert twin of a hostile context = same shape with every non-alphanumeric character replaced by x",
    "document grammar never produces stray end tags (a documented compile error), <![CDATA[, or "
    "script/style content with markup metacharacters outside the keyed risky class",
    "an expansion needing more than 20,000,000 interpreter steps makes the run inconclusive "
    "(generated cases need fewer than 10^4, the heaviest seen about 10^6)",
]


def main() -> int:
    chk = Check("C18", "exploration")
    logging.disable(logging.CRITICAL)
    if chk.tier == "thorough" and chk.args.shard is None and not chk.replay_case:
        run_shards(chk, "vf.checks.c18", 16)
        return chk.finish(RULE, ASSUMPTIONS)
    sys.addaudithook(Audit.hook)
    orig_execute = simpleTAL.TemplateInterpreter.execute

    def execute(interp, template):      # deterministic guard against endless expansions
        if not isinstance(interp.commandHandler, StepBudget):
            interp.commandHandler = StepBudget(interp.commandHandler)
        return orig_execute(interp, template)

    simpleTAL.TemplateInterpreter.execute = execute
    n_canary, n_py, n_handler, n_doc, n_restore = SIZES[chk.tier]
    if chk.replay_case:
        single = {"canary": canary_case, "passthrough": passthrough_case, "restore": restore_case}
        for w in chk.replay_case.get("witnesses", []):
            chk.seed = w.get("case_seed", chk.seed)
            if w.get("sub") in single:
                single[w["sub"]](chk, w["case"])
            elif w.get("sub") in ("python", "handler"):
                with Scratch("c18") as scratch:
                    (python_cases if w["sub"] == "python" else handler_cases)(
                        chk, scratch, n_py if w["sub"] == "python" else n_handler)
        return chk.finish(RULE, ASSUMPTIONS, min_distinct=0)
    canary_controls(chk)
    if chk.args.shard in (None, 0):
        canary_directed(chk)
    for i in range(n_canary):
        canary_case(chk, i)
    with Scratch("c18") as scratch:
        python_cases(chk, scratch, n_py)
        handler_cases(chk, scratch, n_handler)
    for i in range(n_doc):
        passthrough_case(chk, i)
    for i in range(n_restore):
        restore_case(chk, i)
    if chk.args.shard in (None, 0):
        restore_directed(chk)
    c = chk.counters
    for name, floor in (("canary_outputs_parsed", 1), ("canary_payload_occurrences_in_output_text", 1),
                        ("python_blocked_when_disabled", 1), ("python_evaluated_when_enabled", n_py // 2),
                        ("python_audit_events_when_enabled", 1), ("handler_python_evaluated_when_enabled", 1),
                        ("handler_python_blocked_when_disabled", 1), ("documents_expanded", 1),
                        ("contexts_snapshotted", 1), ("explicit_global_defines_observed", 1),
                        ("restore_cases_with:repeat-nothing", 1)):
        if c.get(name, 0) < floor and not any(k.startswith("C18/python") for k in chk.witnesses):
            chk.note_inconclusive("monitor saw too little: %s = %d (< %d)" % (name, c.get(name, 0), floor))
    return chk.finish(RULE, ASSUMPTIONS)


if __name__ == "__main__":
    main_wrapper(main)
