"""C15 -- Gopher+ item information is faithful."""
from __future__ import annotations

import errno
import os
import re
import typing

from vf import common, driver, mimeref, parsers, reqs, trees, validate
from vf.common import Check, Scratch
from vf.trees import Tree

EAEXTS = [(".abstract", "ABSTRACT"), (".keywords", "KEYWORDS"), (".ask", "ASK"), (".3d", "3D")]
ADMIN = "Unconfigured Pygopherd Admin <pygopherd@nowhere.nowhere>"
LINE_POOL = ["A plain line", "Second: with colon", "+INFO: 0fake /fake host 70", "+ADMIN:", " leading blank kept",
             "trailing blanks dropped   ", "Ask: What is your name?", "Note: x", "+VIEWS:", "tab\tinside", "café ü",
             "<tag> & entity", "+", "-", "  two leading", "x" * 200,
             "caf\udce9 in ISO 8859-1", "\udcff\udcfe not UTF-8 at all", "50% off %s {0}"]


def gen_sidecar(rng) -> typing.Tuple[bytes, typing.List[str]]:
    n = rng.randrange(0, 7)
    if n == 0:
        # an empty sidecar file, or one holding only a line break: a block with no lines (trailing
        # blank lines are nowhere compared: the entry reader drops them)
        return rng.choice([b"", b"", b"\n", b"\r\n"]), []
    lines = [rng.choice(LINE_POOL) for _ in range(n)]
    if rng.random() < 0.06:
        # far more text than the server passes on (it reads about 20 KB of a sidecar): whole lines, from the start
        lines = ["line %03d %s" % (k, "s" * 88) for k in range(300)] if rng.random() < 0.5 else ["k" * 30000, "tail"]
        text = "\n".join(lines) + "\n"
        return text.encode(), lines
    if n > 2 and rng.random() < 0.4:
        lines[rng.randrange(1, n - 1)] = ""        # an interior blank line
    if lines[-1].strip() == "":
        lines[-1] = "last"
    nl = rng.choice(["\n", "\r\n"])
    text = nl.join(lines) + rng.choice(["", nl])
    return text.encode("utf-8", "surrogateescape"), [ln.rstrip() for ln in lines]


def _utc(y, mo, d, h=0, mi=0, sec=0) -> int:
    import calendar
    return calendar.timegm((y, mo, d, h, mi, sec, 0, 0, 0))


# modification times where calendars disagree with each other or with arithmetic: the days around a new year
# (week-based vs calendar years, week 53), leap days, single-digit fields, the epoch, past 2038, month ends
CALENDAR_EDGES = [_utc(2024, 12, 30), _utc(2024, 12, 31), _utc(2021, 1, 1), _utc(2021, 1, 3), _utc(2023, 1, 1), _utc(2019, 12, 30),
                  _utc(2020, 12, 31), _utc(2016, 1, 2), _utc(2026, 12, 31), _utc(2027, 1, 1), _utc(2020, 2, 29), _utc(2024, 2, 29),
                  _utc(2001, 2, 3, 4, 5, 6), _utc(1970, 1, 2), _utc(1999, 12, 31), _utc(2000, 1, 1), _utc(2038, 1, 19, 3, 14, 8),
                  _utc(2040, 7, 1), _utc(2022, 3, 31), _utc(2022, 10, 30, 1), _utc(2022, 3, 27, 1)]


def gen_dir(rng, scratch: str):
    t = Tree()
    items: typing.Dict[str, dict] = {}
    exts = [".txt", ".gif", ".pdf", ".png", ".qqq", "", ".mp3"]
    for i in range(rng.randrange(2, 7)):
        ext = rng.choice(exts)
        n = "item%d%s%s" % (i, rng.choice(["", "", "", "-caf\udce9", " 50% {0}"]), ext)
        size = rng.choice([0, 1, 1023, 1024, 1025, 5000, 10240, 70000])
        data = trees.gen_content(rng, size, rng.choice(["text", "binary"]))
        mtime = trees.FIXED_MTIME - 86400 * 400 * i - 3661 * i       # every item has a modification time of its own
        if rng.random() < 0.5:
            mtime = rng.choice(CALENDAR_EDGES) + rng.choice([0, 1, 3599, 43200, 86399])
        t.file("d/" + n, data, mtime=mtime)
        items[n] = {"kind": "file", "size": size, "mime": mimeref.mime_for_ext(ext), "data": data, "ea": {}, "mtime": mtime}
    for i in range(rng.randrange(0, 3)):
        n = "sub%d" % i
        t.file("d/%s/x.txt" % n, "x\n")
        items[n] = {"kind": "dir", "ea": {}}
    # files with an encoding suffix: sent as the bytes they are (no decompressor is configured), and described so
    for i, suffix in enumerate(rng.sample([".txt.gz", ".tar.gz", ".txt.bz2", ".tgz", ".ps.Z", ".gif.gz"], rng.randrange(0, 3))):
        n = "packed%d%s" % (i, suffix)
        data = (trees.bz if suffix.endswith("bz2") else trees.gz)(trees.gen_content(rng, rng.choice([10, 3000, 20000]), "text"))
        t.file("d/" + n, data)
        items[n] = {"kind": "file", "size": len(data), "mime": "application/octet-stream", "data": data, "ea": {}}
    # a menu kept in a file (*.gophermap): what is sent is the menu rendered from it, whose length is not the file's
    if rng.random() < 0.5:
        n = "menu%d.gophermap" % rng.randrange(9)
        lines = ["Welcome to the map file"] + ["0Entry number %d with a fairly long description\t/d/%s" % (k, rng.choice(sorted(items)))
                                               for k in range(rng.choice([3, 40, 120]))]
        t.file("d/" + n, "\n".join(lines) + "\n")
        items[n] = {"kind": "mapfile", "ea": {}}
    for n, it in items.items():
        for ext, block in EAEXTS:
            if rng.random() < 0.45:
                data, lines = gen_sidecar(rng)
                t.file(("d/%s/%s" % (n, ext)) if it["kind"] == "dir" else "d/" + n + ext, data)
                it["ea"][block] = lines
    # a sidecar that is there but cannot be read (foreign owner, mode 000, I/O error, deleted a moment ago): it
    # contributes no block, the item's other sidecars are passed on as ever
    for n, it in items.items():
        if len(it["ea"]) >= 2 and rng.random() < 0.35:
            ext, block = rng.choice([(e, b) for e, b in EAEXTS if b in it["ea"]])
            del it["ea"][block]
            it["unreadable"] = ((("d/%s/%s" % (n, ext)) if it["kind"] == "dir" else "d/" + n + ext), block,
                                rng.choice([errno.EACCES, errno.EIO, errno.ENOENT]))
    # link-file and .cap entries that give some items an Abstract=: in the directory's listing that abstract
    # replaces the item's own, and nothing else of the item's attributes changes
    names_blocks = []
    for k, (n, it) in enumerate(items.items()):
        r = rng.random()
        if r < 0.2:
            names_blocks.append("Path=./%s\nAbstract=Abstract from the names file %d\n" % (n, k))
            it["dir_abstract"] = ["Abstract from the names file %d" % k]
        elif r < 0.35:
            t.file(b"d/.cap/" + n.encode("utf-8", "surrogateescape"), "Abstract=Abstract from the cap file %d\n" % k)
            it["dir_abstract"] = ["Abstract from the cap file %d" % k]
        elif r < 0.5 and it["kind"] == "file":
            # listed under another item type: the +INFO line follows, the +VIEWS block still describes the file
            ty = rng.choice("19gh")
            names_blocks.append("Path=./%s\nType=%s\n" % (n, ty))
            it["dir_type"] = ty
    if names_blocks:
        t.file("d/.names", "\n".join(names_blocks).encode("utf-8", "surrogateescape"))
    if rng.random() < 0.5:
        t.file("d/box.mbox", trees.make_mbox(["First subject", "Second subject"], scratch))
        items["box.mbox"] = {"kind": "mbox", "ea": {}}
    return t, items


def check_item_blocks(chk: Check, name: str, it: typing.Optional[dict], blocks, sample: dict) -> bool:
    names = [b[0] for b in blocks]
    info_line = blocks[0][1][0]
    try:
        info = parsers.parse_gopher_line(info_line)
    except parsers.Malformed as e:
        chk.witness("C15/info-line-malformed", dict(sample, item=name, error=str(e)))
        return False
    if info["type"] == "i":
        if names[:2] != ["INFO", "ADMIN"]:
            chk.witness("C15/fixed-blocks-missing:info-item", dict(sample, item=name, blocks=names))
            return False
        return True
    if names[:3] != ["INFO", "ADMIN", "VIEWS"]:
        chk.witness("C15/fixed-blocks-missing", dict(sample, item=name, blocks=names))
        return False
    admin = blocks[1][1]
    if not admin or admin[0] != b"Admin: " + ADMIN.encode():
        chk.witness("C15/admin-block", dict(sample, item=name, admin=admin))
        return False
    if it is not None and it.get("mtime") is not None:
        # the +ADMIN block's Mod-Date is the item's modification time (local time, <YYYYMMDDhhmmss>)
        import time
        md = [ln for ln in admin if ln.startswith(b"Mod-Date: ")]
        want_md = time.strftime("%Y%m%d%H%M%S", time.localtime(it["mtime"])).encode()
        m_md = re.search(rb"<(\d{14})>", md[0]) if md else None
        if not m_md or m_md.group(1) != want_md:
            chk.witness("C15/admin-mod-date", dict(sample, item=name, admin=admin, expected=want_md))
            return False
        chk.count("mod_dates_compared")
    views = blocks[2][1]
    if len(views) != 1:
        chk.witness("C15/views-block-lines", dict(sample, item=name, views=views))
        return False
    m = re.fullmatch(rb"([A-Za-z0-9.+-]+/[A-Za-z0-9.+-]+):(?: <(\d+)k>)?", views[0])
    if not m:
        chk.witness("C15/views-block-syntax", dict(sample, item=name, views=views))
        return False
    if it is None:
        return True
    mime = m.group(1).decode()
    size = int(m.group(2)) if m.group(2) is not None else None
    if it["kind"] == "file":
        if mime != it["mime"]:
            chk.witness("C15/views-mime", dict(sample, item=name, advertised=mime, expected=it["mime"]))
            return False
        if size != it["size"] // 1024:
            chk.witness("C15/views-size", dict(sample, item=name, advertised_k=size, file_size=it["size"]))
            return False
    elif it["kind"] in ("dir", "mapfile"):
        if mime not in ("application/gopher-menu", "application/gopher+-menu"):
            chk.witness("C15/views-mime:directory", dict(sample, item=name, advertised=mime))
            return False
        if it["kind"] == "mapfile" and size is not None and it.get("rendered_len") is not None and size != it["rendered_len"] // 1024:
            chk.witness("C15/views-size:generated-menu", dict(sample, item=name, advertised_k=size, rendered_bytes=it["rendered_len"]))
            return False
    want = [b for _, b in EAEXTS if b in it["ea"]]
    extra = names[3:]
    if sorted(extra) != sorted(want) or len(extra) != len(set(extra)):
        chk.witness("C15/sidecar-blocks-%s" % ("missing" if set(want) - set(extra) else "extra"),
                    dict(sample, item=name, blocks=extra, expected=want))
        return False
    for bname, lines in blocks[3:]:
        exp = [x.encode("utf-8", "surrogateescape") for x in it["ea"][bname]]
        if sum(len(x) + 1 for x in exp) > 20000 and len(lines) < len(exp):
            # a long sidecar may be passed on in part: whole lines from the start, about 20 KB of them at least
            if lines == exp[:len(lines)] and sum(len(x) + 1 for x in lines) >= 20000:
                chk.count("long_sidecars_passed_on_in_part")
                continue
        if lines != exp:
            chk.witness("C15/sidecar-block-lines", dict(sample, item=name, block=bname, got=lines[:4], expected=exp[:4]))
            return False
        chk.count("sidecar_blocks_compared")
    return True


class OpenFaults:
    """open() failing for chosen paths, as seen by the server's file-system layer (the name `open` is shadowed inside
    pygopherd.handlers.base; harness-side only)."""

    def __init__(self, errors: typing.Dict[bytes, int]):
        self.errors = errors
        self.hits = 0

    def install(self):
        if self.errors:
            from pygopherd.handlers import base as basemod
            basemod.open = self.open

    def remove(self):
        from pygopherd.handlers import base as basemod
        try:
            del basemod.open
        except AttributeError:
            pass

    def open(self, path, *a, **kw):
        try:
            p = os.fsencode(path)
        except TypeError:
            return open(path, *a, **kw)
        if p in self.errors:
            self.hits += 1
            e = self.errors[p]
            raise OSError(e, os.strerror(e), os.fsdecode(p))
        return open(path, *a, **kw)


def run_case(chk: Check, sc: Scratch, idx: int) -> None:
    rng = chk.subrng("case", idx)
    t, items = gen_dir(rng, sc.path)
    root = sc.sub("r%d" % idx)
    t.materialize(root)
    # cache on: the second $ of each directory is answered from the directory cache and must be as faithful
    site = driver.Site(root, overrides={("handlers.UMN.UMNDirHandler", "extstrip"): "none",
                                        ("handlers.dir.DirHandler", "cachetime"): "1000"})
    shim = OpenFaults({os.path.join(os.fsencode(root), trees.tob(it["unreadable"][0])): it["unreadable"][2]
                       for it in items.values() if "unreadable" in it})
    shim.install()
    try:
        for nm, it in items.items():
            if it["kind"] != "mapfile":
                continue
            req, _ = reqs.render("gopherp+", b"/d/" + nm.encode())
            r = site.request(req)
            try:
                d = parsers.parse_gopherplus(r.data)
            except parsers.Malformed as e:
                chk.witness("C15/document-length-prefix:generated-menu", {"item": nm, "reply": r.data[:80], "error": str(e)})
                return
            if d["length"] not in (-2, -1, len(d["body"])):
                chk.witness("C15/document-length-prefix:generated-menu", {"item": nm, "length": d["length"], "body": len(d["body"]),
                                                                          "file_size": len(t.nodes[b"d/" + nm.encode()]["data"])})
                return
            it["rendered_len"] = len(d["body"])
            chk.count("generated_menus_fetched_with_a_length_prefix")
        req, _ = reqs.render("gopher", b"/d")
        plain = site.request(req)
        plain_lines = plain.data[:-2].split(b"\r\n") if plain.data else []
        for view in ("gopherp$", "gopherps$"):
            req, tls = reqs.render(view, b"/d")
            r = site.request(req, tls=tls)
            v = validate.validate(r, req)
            sample = {"view": view, "items": {k: {kk: vv for kk, vv in it.items() if kk != "data"} for k, it in items.items()},
                      "reply": r.data[:600]}
            if not v.ok or v.klass != "info":
                chk.witness("C15/directory-info-unparsable", dict(sample, reason=v.reason))
                return
            its = v.parsed["items"]
            infos = [b[0][1][0] for b in its]
            if infos != plain_lines:
                i = next((k for k, (a, b) in enumerate(zip(infos, plain_lines)) if a != b), min(len(infos), len(plain_lines)))
                chk.witness("C15/info-differs-from-gopher-menu-line", dict(sample, index=i, info=infos[i:i + 2], menu=plain_lines[i:i + 2]))
                return
            by_name = {}
            for blocks in its:
                d = parsers.parse_gopher_line(blocks[0][1][0])
                nm = d["selector"].rsplit(b"/", 1)[-1].decode("utf-8", "surrogateescape") if d["type"] != "i" else None
                it = items.get(nm) if nm else None
                if it is not None and "dir_abstract" in it:
                    it = dict(it, ea=dict(it["ea"], ABSTRACT=it["dir_abstract"]))
                    chk.count("items_with_abstract_from_link_file")
                if not check_item_blocks(chk, nm or "(info)", it, blocks, sample):
                    return
                if nm in items:
                    by_name[nm] = blocks
            missing = [n for n in items if n not in by_name and not n.endswith((".abstract",))]
            if missing:
                chk.witness("C15/item-missing-from-directory-info", dict(sample, missing=missing))
                return
        # '!' for every item must give the same blocks as its entry in '$'
        for nm, blocks in by_name.items():
            req, _ = reqs.render("gopherp!", b"/d/" + nm.encode("utf-8", "surrogateescape"))
            r = site.request(req)
            v = validate.validate(r, req)
            if not v.ok or v.klass != "info" or len(v.parsed["items"]) != 1:
                chk.witness("C15/item-info-unparsable", {"item": nm, "reply": r.data[:300], "reason": v.reason})
                return
            one = v.parsed["items"][0]
            if "dir_abstract" in items[nm] or "dir_type" in items[nm]:
                # the directory shows the link file's abstract / item type, the item itself its own: compare everything else
                strip = lambda bl: [b for b in bl if b[0] not in (("ABSTRACT",) if "dir_abstract" in items[nm] else ("INFO",))]
                same = validate.normalize_ts(repr(strip(one)).encode()) == validate.normalize_ts(repr(strip(blocks)).encode())
            else:
                same = validate.normalize_ts(repr(one).encode()) == validate.normalize_ts(repr(blocks).encode())
            if not same:
                chk.witness("C15/item-info-differs-from-directory-info", {"item": nm, "item_info": one, "in_directory": blocks})
                return
            if not check_item_blocks(chk, nm, items[nm], one, {"view": "gopherp!", "reply": r.data[:300]}):
                return
            chk.count("item_info_requests")
            # '+' : exact length or the unknown-length marker
            it = items[nm]
            if it["kind"] == "file":
                req, _ = reqs.render("gopherp+", b"/d/" + nm.encode("utf-8", "surrogateescape"))
                r = site.request(req)
                try:
                    d = parsers.parse_gopherplus(r.data)
                except parsers.Malformed as e:
                    chk.witness("C15/document-length-prefix", {"item": nm, "size": it["size"], "reply": r.data[:80], "error": str(e)})
                    return
                if d["length"] not in (len(it["data"]), -2) or d["body"] != it["data"]:
                    chk.witness("C15/document-length-prefix", {"item": nm, "size": it["size"], "length": d["length"], "body": len(d["body"])})
                    return
                # the + form naming a view, with and without a language, two- and three-field
                sel_b = b"/d/" + nm.encode("utf-8", "surrogateescape")
                mime = it["mime"].encode()
                for tail in (b"\t+" + mime, b"\t+" + mime + b" En_US", b"\t+" + mime + b" De_DE", b"\t\t+" + mime + b" En_US"):
                    if reqs.gopher_ambiguous(sel_b):
                        break
                    rq = sel_b + tail + b"\r\n"
                    r = site.request(rq)
                    chk.count("view_requests")
                    try:
                        d = parsers.parse_gopherplus(r.data)
                        ok = d["length"] in (len(it["data"]), -2) and d["body"] == it["data"]
                    except parsers.Malformed:
                        ok = False
                    if not ok or r.protocol != "GopherPlusProtocol":
                        chk.witness("C15/view-request-not-answered-as-gopherplus", {"request": rq, "reply": r.data[:120], "protocol": r.protocol})
                        return
        for tail in (b"\t+application/gopher+-menu", b"\t+application/gopher+-menu En_US", b"\t$+INFO"):
            rq = b"/d" + tail + b"\r\n"
            r = site.request(rq)
            chk.count("view_requests")
            try:
                d = parsers.parse_gopherplus(r.data)
                ok = d["length"] == -2 or d["length"] == len(d["body"])
            except parsers.Malformed:
                ok = False
            if not ok or r.protocol != "GopherPlusProtocol":
                chk.witness("C15/view-request-not-answered-as-gopherplus", {"request": rq, "reply": r.data[:120], "protocol": r.protocol})
                return
        if "box.mbox" in items:
            req, _ = reqs.render("gopherp$", b"/d/box.mbox")
            r = site.request(req)
            v = validate.validate(r, req)
            if not v.ok or v.klass != "info" or len(v.parsed["items"]) != 2:
                chk.witness("C15/virtual-items-info", {"reply": r.data[:400], "reason": v.reason})
                return
            for blocks in v.parsed["items"]:
                if not check_item_blocks(chk, "mbox message", None, blocks, {"reply": r.data[:400]}):
                    return
            req, _ = reqs.render("gopherp+", b"/d/box.mbox|/MBOX-MESSAGE/1")
            r = site.request(req)
            try:
                d = parsers.parse_gopherplus(r.data)
            except parsers.Malformed as e:
                chk.witness("C15/document-length-prefix:virtual", {"reply": r.data[:80], "error": str(e)})
                return
            chk.count("virtual_items_checked", 2)
        sig = (tuple(sorted({it["kind"] for it in items.values()})),
               tuple(sorted({b for it in items.values() for b in it["ea"]})), len(items))
        chk.case(sig, {"items": sorted(items), "sidecars": {k: sorted(it["ea"]) for k, it in items.items() if it["ea"]}}
                 if idx % 25 == 0 else None)
    finally:
        shim.remove()
        if shim.errors:
            chk.count("unreadable_sidecars", len(shim.errors))
            chk.count("opens_refused_for_unreadable_sidecars", shim.hits)
            if not shim.hits:
                chk.note_inconclusive("an unreadable sidecar was never opened")
        site.close()
        import shutil
        shutil.rmtree(root, ignore_errors=True)


def main() -> int:
    chk = Check("C15", "exploration")
    quick = chk.tier == "quick"
    if not quick and chk.args.shard is None:
        common.run_shards(chk, "vf.checks.c15", 16, timeout=2400)
    else:
        with Scratch("c15") as sc:
            for i in range(200 if quick else 800):
                run_case(chk, sc, i)
    return chk.finish(
        rule="case = one generated directory (files of sizes around the 1024-byte display unit, sub-directories, an "
             "mbox; every subset of the four sidecar files with printable multi-line content including block-header "
             "look-alikes) read with $ (plain and TLS), ! for every item and + for every file: +INFO = plain Gopher menu "
             "line, +ADMIN present, +VIEWS = configured MIME type and size//1024, one block per sidecar with exactly "
             "the file's right-stripped lines, ! = the item's blocks in $, + length exact or -2. distinct = (item "
             "kinds, sidecar kinds present, #items)",
        assumptions=["sidecar files do not end in blank lines, contain no control characters other than TAB and are below 20 KB", "extstrip=none so display names are "
                     "file names", "directory MIME type may be the Gopher or the Gopher+ menu type"])


if __name__ == "__main__":
    common.main_wrapper(main)
