"""C06 -- the same site is seen through every protocol."""
from __future__ import annotations

import re
import typing
import urllib.parse

from vf import common, crawl, driver, parsers, reqs, sites, validate
from vf.checks import c04, c05
from vf.common import Check, Scratch

VIEWS = ["gopher", "gophers", "gopherp+", "gopherp$", "gopherps$", "http", "https", "wap", "gemini", "spartan"]
GPLUS = {"gopherp+", "gopherp$", "gopherps$", "gopherps+"}
GEMLIKE = {"gemini", "spartan"}


def gem_name(b: bytes) -> bytes:
    """text/gemini is UTF-8: the protocols document backslashreplace for stray bytes."""
    return b.decode("utf-8", "backslashreplace").encode("utf-8")


def norm_remote(url: bytes) -> typing.Any:
    m = re.match(rb"gopher://([^:/]+):(\d+)/(.*)$", url, re.S)
    if not m:
        return ("url", url)
    rest = urllib.parse.unquote_to_bytes(m.group(3))
    return ("gopher", m.group(1), int(m.group(2)), rest[:1], rest[1:])


def normalize(view: str, entries: typing.List[crawl.Entry], gemlike: bool) -> typing.List[tuple]:
    out = []
    for e in entries:
        name = e.name.replace(b"\t", b" ")      # a Gopher display string cannot carry a TAB (written as a blank)
        if gemlike and view not in GEMLIKE:
            name = gem_name(name)
        if e.local is None:
            out.append(("info", name))
        elif e.local:
            # (the empty selector is the root menu, like "/")
            out.append(("search" if (e.search or e.type == "7") else "local", name, e.selector or b"/"))
        else:
            tgt = norm_remote(e.url)
            if tgt[0] == "gopher" and tgt[1] == driver.SERVER_NAME.encode() and tgt[2] == crawl.LOCAL_PORT:
                # a gopher:// URL that names this very server and port is the local object
                out.append(("search" if tgt[3] == b"7" else "local", name, tgt[4]))
            else:
                out.append(("remote", name, tgt))
    return out


def listing(chk: Check, site: driver.Site, view: str, sel: bytes):
    req, tls = reqs.render(view, sel)
    # relative references in the page resolve against the page's own URL path, as in a browser
    import urllib.parse
    crawl.CURRENT_PAGE_PATH = (reqs.WAPTOP.rstrip("/") if reqs.VIEWS[view][0] == "wap" and view != "wapauto" else "") + \
        urllib.parse.quote(sel, safe="/")
    resp = site.request(req, tls=tls)
    v = validate.validate(resp, req)
    if resp.escaped or not v.ok or v.klass not in ("menu", "info", "any"):
        return None, resp, v
    if v.klass == "any":  # ZIP handler: decide by trying
        fam = reqs.VIEWS[view][0]
        try:
            if fam == "gopher":
                v.parsed = parsers.parse_gopher_menu(resp.data)
            elif fam == "gopherp":
                if view.endswith("$"):
                    v.parsed["items"] = parsers.parse_gopherplus_items(v.parsed["body"])
                else:
                    v.parsed["menu"] = parsers.parse_gopher_menu(v.parsed["body"])
        except parsers.Malformed:
            return None, resp, v
    try:
        return crawl.entries_of(view, v), resp, v
    except Exception:
        return None, resp, v


def compare_dir(chk: Check, site: driver.Site, sel: bytes, ctx: str, abstract_entries: str) -> None:
    per_view = {}
    views = VIEWS
    if sel == b"/wap" or sel.startswith(b"/wap/"):
        # documented: over HTTP(S) the waptop path is the WAP view of the site, not this directory
        views = [v for v in VIEWS if v not in ("http", "https")]
    for view in views:
        vsel = sel
        if reqs.VIEWS[view][0] in ("gopher", "gopherp") and not reqs.gopher_expressible(sel):
            # a Gopher request field is trimmed of white space, so the Gopher family cannot name a directory whose
            # name ends in a blank (stated by the properties, see reqs.gopher_expressible); it can name it with the
            # trailing slash, which must show the same directory as the URL-based views show for either form
            vsel = sel + b"/"
            chk.count("gopher_family_views_of_names_ending_in_white_space")
        ents, resp, v = listing(chk, site, view, vsel)
        if ents is None:
            chk.witness("C06/listing-failed:%s" % reqs.VIEWS[view][0],
                        {"view": view, "selector": vsel, "ctx": ctx, "reply_head": resp.data[:120], "reason": v.reason,
                         "log": resp.log[:2], "escaped": resp.escaped[:1]})
            return
        per_view[view] = (ents, validate.normalize_ts(resp.data))
        # trailing slash must not change the answer
        if sel != b"/" and vsel == sel:
            req2, tls2 = reqs.render(view, sel + b"/")
            r2 = site.request(req2, tls=tls2)
            if validate.normalize_ts(r2.data) != per_view[view][1]:
                chk.witness("C06/trailing-slash-changes-answer:%s" % reqs.VIEWS[view][0],
                            {"view": view, "selector": sel, "ctx": ctx, "without": per_view[view][1][:200],
                             "with": r2.data[:200]})
                return
            chk.count("trailing_slash_pairs")
        # a client that percent-encodes only what a URL path must encode names the same directory
        if reqs.VIEWS[view][0] in ("http", "wap", "gemini", "spartan") and any(ch in sel for ch in b"!$&'()*+,;=:@"):
            for tail in (b"", b"/"):
                req3, tls3 = reqs.render(view, sel + tail, minimal_path=True)
                r3 = site.request(req3, tls=tls3)
                chk.count("minimal_escaping_requests")
                if validate.normalize_ts(r3.data) != per_view[view][1]:
                    chk.witness("C06/reserved-character-sent-literally-changes-answer:%s" % reqs.VIEWS[view][0],
                                {"view": view, "selector": sel + tail, "ctx": ctx, "request": req3[:200], "escaped_form_got": per_view[view][1][:200],
                                 "literal_form_got": r3.data[:200]})
                    return
    base_view = "gopher"
    for view in views:
        if view == base_view:
            continue
        gl = view in GEMLIKE
        a = normalize(base_view, per_view[base_view][0], gl)
        b = normalize(view, per_view[view][0], gl)
        if view in GPLUS and abstract_entries == "unsupported":
            infos_a = [x for x in a if x[0] == "info"]
            infos_b = [x for x in b if x[0] == "info"]
            it = iter(infos_a)
            if not all(any(x == y for y in it) for x in infos_b):
                chk.witness("C06/gopherplus-info-lines-not-a-subsequence", {"selector": sel, "ctx": ctx, "view": view,
                                                                             "gopher": infos_a[:6], "this": infos_b[:6]})
                return
            a = [x for x in a if x[0] != "info"]
            b = [x for x in b if x[0] != "info"]
        if a != b:
            i = next((k for k, (x, y) in enumerate(zip(a, b)) if x != y), min(len(a), len(b)))
            what = "length" if i >= min(len(a), len(b)) else ("%s-vs-%s" % (a[i][0], b[i][0]) if a[i][0] != b[i][0] else
                                                             ("name" if a[i][1] != b[i][1] else "target"))
            chk.witness("C06/entries-differ:%s:%s" % (reqs.VIEWS[view][0], what),
                        {"selector": sel, "ctx": ctx, "view": view, "index": i, "gopher": a[i:i + 2], "this": b[i:i + 2],
                         "len_gopher": len(a), "len_this": len(b)})
            return
    n = len(per_view[base_view][0])
    kinds = tuple(sorted({x[0] for x in normalize(base_view, per_view[base_view][0], False)}))
    chk.case(("dir", ctx.split(":")[0], abstract_entries, kinds, min(n, 12)),
             {"selector": sel, "ctx": ctx, "entries": n, "views": len(VIEWS)} if n and chk.evaluations % 7 == 0 else None)


def mime_views(chk: Check, site: driver.Site, o: sites.Obj, ctx: str) -> None:
    """One selector -> the same object and MIME type in all protocols."""
    got = {}
    for view in ("http", "https", "gemini", "spartan", "gopherp!"):
        if view in ("http", "https") and (o.selector == b"/wap" or o.selector.startswith(b"/wap/")):
            continue
        vsel = o.selector
        if reqs.VIEWS[view][0] == "gopherp" and not reqs.gopher_expressible(vsel):
            # outside the quantifier: the Gopher family cannot name an object whose name ends in white space (request
            # fields are trimmed), except a directory through its trailing-slash form
            chk.count("gopher_family_views_of_names_ending_in_white_space")
            if o.kind != "menu":
                continue
            vsel += b"/"
        req, tls = reqs.render(view, vsel)
        resp = site.request(req, tls=tls)
        v = validate.validate(resp, req)
        if not v.ok or v.klass == "error":
            chk.witness("C06/object-missing-in-one-protocol:%s" % reqs.VIEWS[view][0],
                        {"selector": o.selector, "view": view, "reply_head": resp.data[:100], "ctx": ctx})
            return
        fam = reqs.VIEWS[view][0]
        if fam == "http":
            got[view] = dict(v.parsed["headers"]).get("content-type", b"").decode("latin-1")
        elif fam in ("gemini", "spartan"):
            got[view] = v.parsed["meta"].decode("latin-1")
        else:
            m = None
            for name, lines in v.parsed["items"][0]:
                if name == "VIEWS" and lines:
                    m = lines[0].decode("latin-1").split(":")[0].split(" ")[0]
            got[view] = m
    canon = {}
    for view, m in got.items():
        if m in ("text/html", "text/gemini", "application/gopher-menu", "application/gopher+-menu") and o.kind == "menu":
            m = "<menu>"
        canon[view] = m
    vals = set(canon.values())
    if len(vals) != 1:
        chk.witness("C06/mime-differs-between-protocols:%s" % "+".join(sorted(t for t in o.tags if ":" not in t)),
                    {"selector": o.selector, "types": got, "ctx": ctx})
        return
    chk.case(("mime", ctx.split(":")[0], next(iter(vals)), tuple(sorted(t for t in o.tags if ":" not in t))), None)


QUERIES = [b"needle", b"two words", b"mount /umn 2", b"alpha /gm/local.txt 12", b"a+b", b"100%", b"%41", b"a&b=c", b"x?y#z", b"semi;colon", b"caf\xc3\xa9",
           b"\xff\xfe bad utf8", b"quote\"s'", b"<tag>", b"back\\slash", b"a=b", b"~tilde", b"$1", b"!", b"+", b"$x"]


def extract_echo(view: str, resp, marker: bytes) -> typing.Optional[bytes]:
    v = validate.validate(resp, b"")
    data = resp.data
    fam = reqs.VIEWS[view][0]
    if not v.ok:
        return None
    if fam == "gopherp":
        data = v.parsed["body"]
    elif fam in ("http", "gemini", "spartan"):
        data = v.parsed["body"]
    elif fam == "wap":
        lines = c04.wml_inverse(v.parsed["body"])
        if lines is None:
            return None
        data = "\n".join(lines).encode("utf-8", "surrogateescape") + b"\n"
    m = re.search(re.escape(marker) + rb"\[(.*)\]\n", data, re.S)
    return m.group(1) if m else None


def search_equivalence(chk: Check, site: driver.Site, rng, ctx: str) -> None:
    targets = [(b"/cgi.sh", b"SEARCH="), (b"/echo.pyg", b"PYG SEARCH="), (b"/c#find 100%.sh", b"SEARCH=")]
    queries = list(QUERIES)
    for _ in range(12):
        n = rng.randrange(1, 12)
        q = bytes(rng.choice(b"abc xyz%+&=?#;/\\\"'<>\xc3\xa9\xff~!$*()") for _ in range(n)).strip()
        if q and b"\t" not in q:
            queries.append(q)
    for sel, marker in targets:
        for q in queries:
            seen = {}
            for view in ("gopher", "gophers", "gopherp+", "http", "https", "wap", "gemini", "gemini:minimal-escaping", "spartan"):
                minimal = view.endswith(":minimal-escaping")
                label, view = view, view.split(":")[0]
                if reqs.VIEWS[view][0] == "gopher" and (q == b"!" or q[:1] in (b"+", b"$")):
                    # 'selector<TAB>+...' is by its documented shape a Gopher+ request, not a search
                    continue
                req, tls = reqs.render(view, sel, q, minimal_query=minimal)
                resp = site.request(req, tls=tls)
                seen[label] = extract_echo(view, resp, marker)
                view = label
                if seen[view] is None:
                    chk.witness("C06/search-target-failed:%s" % reqs.VIEWS[view.split(":")[0]][0],
                                {"view": view, "selector": sel, "query": q, "reply_head": resp.data[:160], "log": resp.log[:3]})
            # the same submissions delivered in several pieces (request line | body, mid-line, mid-body ...)
            for view in ("spartan", "gopher", "http", "gemini", "gopherp+")[(len(q) + len(sel)) % 2::2]:
                if reqs.VIEWS[view][0] == "gopher" and (q == b"!" or q[:1] in (b"+", b"$")):
                    continue
                req, tls = reqs.render(view, sel, q)
                nl = req.find(b"\n") + 1
                plans = [[nl], [nl + max(1, (len(req) - nl) // 2)], [nl, nl + max(1, (len(req) - nl) // 2)], [max(1, nl // 2)],
                         [rng.randrange(1, len(req)) for _ in range(2)]]
                for plan in plans[:3] if view == "spartan" else plans[3:]:
                    resp = site.request(req, tls=tls, segments=plan)
                    label = "%s:segments@%s" % (view, ",".join(str(k) for k in sorted(set(plan))))
                    seen[label] = extract_echo(view, resp, marker)
                    chk.count("segmented_search_submissions")
                    if seen[label] is None:
                        chk.witness("C06/search-target-failed:%s" % reqs.VIEWS[view][0],
                                    {"view": label, "selector": sel, "query": q, "reply_head": resp.data[:160], "log": resp.log[:3]})
            # Gemini's own way to a search: the listing's /GEMINI-QUERY link -> status 10 prompt -> the answer appended
            # as a query -> status 30 redirect -> the script
            if q and b"\n" not in q:
                base = b"gemini://" + reqs.HOST.encode() + b"/GEMINI-QUERY" + reqs.quote(sel).encode()
                r1 = site.request(base + b"\r\n", tls=True)
                r2 = site.request(base + b"?" + urllib.parse.quote(q).encode() + b"\r\n", tls=True)
                flow = {"prompt": r1.data[:60], "redirect": r2.data[:200]}
                m = re.match(rb"3\d (\S+)\r\n$", r2.data)
                if not r1.data.startswith(b"10 ") or not m:
                    chk.witness("C06/gemini-search-flow-broken", {"selector": sel, "query": q, "flow": flow})
                else:
                    target = m.group(1)
                    if target.startswith(b"/"):
                        target = b"gemini://" + reqs.HOST.encode() + target
                    r3 = site.request(target + b"\r\n", tls=True)
                    seen["gemini:prompt-and-redirect"] = extract_echo("gemini", r3, marker)
                    chk.count("gemini_search_flows")
                    if seen["gemini:prompt-and-redirect"] is None:
                        chk.witness("C06/search-target-failed:gemini", {"view": "gemini:prompt-and-redirect", "selector": sel, "query": q,
                                                                         "flow": dict(flow, final=r3.data[:160])})
            if None in seen.values():
                continue
            bad = {v: e for v, e in seen.items() if e != q}
            if bad:
                fams = sorted({reqs.VIEWS[v.split(":")[0]][0] for v in bad})
                cls = "non-utf8" if _nonutf8(q) else "ascii-or-utf8"
                chk.witness("C06/search-string-altered:%s:%s" % ("+".join(fams), cls),
                            {"selector": sel, "query": q, "received_by_handler": bad})
            else:
                chk.case(("search", sel, _qclass(q)), {"selector": sel, "query": q, "views": len(seen)} if len(q) > 6 else None)
            chk.count("search_submissions", len(seen))


def _nonutf8(q: bytes) -> bool:
    try:
        q.decode("utf-8")
        return False
    except UnicodeDecodeError:
        return True


def _qclass(q: bytes) -> tuple:
    return (_nonutf8(q), any(c in q for c in b"%+&=?#;"), b" " in q, any(c >= 0x80 for c in q))


def main() -> int:
    chk = Check("C06", "exploration")
    quick = chk.tier == "quick"
    if not quick and chk.args.shard is None:
        common.run_shards(chk, "vf.checks.c06", 16, timeout=2400)
    else:
        nsites = 3 if quick else 10
        settings = [("on", "always"), ("off", "unsupported"), ("on", "never"), ("off", "always"), ("on", "unsupported")]
        with Scratch("c06") as sc:
            for i in range(nsites):
                rng = chk.subrng("site", i)
                model = sites.gen_site(rng, sc.path, nfiles=12, gm_style=sites.GM_STYLES[i % 4])
                if i % 2 == 0:
                    c05.extra_names(rng, model)
                root = sc.sub("root%d" % i)
                model.tree.materialize(root)
                for hl_name, hl in (("default", None), ("full", driver.HANDLERS_FULL)):
                    full = hl is not None
                    for si, (ah, ae) in enumerate(settings if not quick else settings[i % 2::2] + settings[:1]):
                        site = driver.Site(root, handlers=hl, overrides={("pygopherd", "abstract_headers"): ah,
                                                                         ("pygopherd", "abstract_entries"): ae})
                        ctx = "%s:site%d:headers=%s:entries=%s" % (hl_name, i, ah, ae)
                        try:
                            for o in model.menus(full):
                                compare_dir(chk, site, o.selector, ctx, ae)
                            if si == 0:
                                for o in model.objs:
                                    if o.needs_full and not full:
                                        continue
                                    mime_views(chk, site, o, ctx)
                                if full:
                                    search_equivalence(chk, site, rng, ctx)
                        finally:
                            site.close()
    return chk.finish(
        rule="case = one directory read through 10 protocol views and reduced by independent listing readers to "
             "(class, display name, target) sequences that must be pairwise equal (Gopher+ may omit entry abstracts "
             "under abstract_entries=unsupported), with and without trailing slash; one selector's MIME type in "
             "HTTP/HTTPS/Gemini/Spartan/Gopher+ VIEWS; one search string submitted through 8 views and echoed by a "
             "script and a PYG handler. distinct = (kind of case, handler list, abstract setting, entry classes, "
             "size bucket) / (mime, tags) / (target, query class)",
        assumptions=["names compared for Gemini/Spartan after the documented backslashreplace of non-UTF-8 bytes",
                     "remote targets compared as (host, port, type, selector)", "display names compared with TAB read as a blank",
                     "search strings contain no TAB/CR/LF/NUL and no leading/trailing blanks",
                     "a name ending in white space is not requested through the Gopher family (request fields are trimmed) "
                     "except a directory through its trailing-slash form; URL-based views are compared in both forms"])


if __name__ == "__main__":
    common.main_wrapper(main)
