"""C19 -- Privileges are dropped completely and in the right order at start-up.

The REAL ``bin/pygopherd`` is started as root under ``strace -f`` for every combination
of usechroot x setuid(nobody) x setgid(nogroup).  Decided on:

* the recorded system-call order of the server process (bind/listen/certificate before
  the first privileged call; chroot first; setgroups < gid change < uid change),
* the end state read from /proc/<pid>/{status,root,cwd},
* the ``Running.  Root is`` log line and the answers to real requests,
* fault enumeration: every privileged call of every combination fails once
  (``strace -e inject=<call>:error=EPERM:when=1``), plus unknown user / group names;
  the server must never reach its accept loop afterwards.

No verdict depends on the clock: a start-up that is not ready in time is retried once
and then scored inconclusive.
"""
from __future__ import annotations

import os
import re
import sys
import time
import typing
from concurrent.futures import ThreadPoolExecutor

from vf import REPO
from vf import spdriver
from vf.common import Check, Scratch, main_wrapper

PID = "C19"

TRACE_CALLS = ["chroot", "chdir", "fchdir", "setgroups", "setregid", "setreuid",
               "setresuid", "setresgid", "setuid", "setgid", "setfsuid", "setfsgid",
               "bind", "listen", "accept4", "accept", "poll", "ppoll", "select",
               "pselect6", "epoll_wait", "epoll_pwait", "openat", "open"]
# '?' = no error on an architecture that lacks the call (open/poll/select/accept)
TRACE_EXPR = ",".join("?" + c for c in TRACE_CALLS)

CLASS_OF = {
    "chroot": "chroot",
    "setgroups": "groups",
    "setregid": "gid", "setresgid": "gid", "setgid": "gid", "setfsgid": "gid",
    "setreuid": "uid", "setresuid": "uid", "setuid": "uid", "setfsuid": "uid",
}
WAIT_CALLS = ("accept4", "accept", "poll", "ppoll", "select", "pselect6",
              "epoll_wait", "epoll_pwait")
USER, GROUP = "nobody", "nogroup"
READY_TIMEOUT = 20.0
# faults on calls the implementation may legitimately not make: when the call never
# happens the run is a trivial case, not an inconclusive one
OPTIONAL = ("chdir",)
KNOWN_KEY = "C19/no-chdir-after-chroot"


class Run(typing.NamedTuple):
    chroot: bool
    uid: bool
    gid: bool
    fault: typing.Optional[str]     # None | syscall name | "unknown-user" | "unknown-group"
    servertype: str
    tls: bool
    detach: bool = False            # detach = yes: the launcher forks and exits, the daemon child goes on
    err: str = "EPERM:1"            # how an injected call fails: errno and which calls ("1": the first; "1+": every one)
    ident: str = "plain"            # "plain": started 0/0/0, switching to nobody/nogroup; "target-root": setuid/setgid name
                                    # root while the process starts with gid 4242; "real-is-target": started with the real
                                    # ids already those of the target (a set-uid launcher), effective and saved ids 0

    @property
    def combo(self) -> str:
        parts = [n for n, f in (("chroot", self.chroot), ("uid", self.uid), ("gid", self.gid)) if f]
        return "+".join(parts) or "none"

    def sig(self) -> tuple:
        return (self.combo, self.fault or "-", self.servertype, "tls" if self.tls else "plain") + \
            (("detached",) if self.detach else ()) + ((self.ident,) if self.ident != "plain" else ()) + \
            ((self.err,) if self.err != "EPERM:1" else ())

    def as_dict(self) -> dict:
        return {"combo": self.combo, "fault": self.fault, "servertype": self.servertype,
                "tls": self.tls, "detach": self.detach, "ident": self.ident, "err": self.err}


def expected_calls(r: Run) -> typing.List[str]:
    """The privileged calls (as CPython/glibc issue them on this platform: os.chroot ->
    chroot, os.setgroups -> setgroups, os.setregid -> setregid, os.setreuid -> setreuid)
    that the configuration makes due, in the documented order."""
    out = []
    if r.chroot:
        out.append("chroot")
    if r.uid or r.gid:
        out.append("setgroups")
    if r.gid:
        out.append("setregid")
    if r.uid:
        out.append("setreuid")
    return out


UNPRIVILEGED_LAUNCHER = """
import ctypes, os
libc = ctypes.CDLL(None, use_errno=True)
def _ok(rc, what):
    if rc != 0:
        raise OSError(ctypes.get_errno(), what)
_ok(libc.prctl(8, 1, 0, 0, 0), "PR_SET_KEEPCAPS")
os.setgroups([])
os.setregid(%(gid)d, %(gid)d)
os.setreuid(%(uid)d, %(uid)d)
class _H(ctypes.Structure):
    _fields_ = [("version", ctypes.c_uint32), ("pid", ctypes.c_int)]
class _D(ctypes.Structure):
    _fields_ = [("effective", ctypes.c_uint32), ("permitted", ctypes.c_uint32), ("inheritable", ctypes.c_uint32)]
_mask = (1 << 1) | (1 << 2)          # CAP_DAC_OVERRIDE, CAP_DAC_READ_SEARCH
_h = _H(0x20080522, 0)
_d = (_D * 2)(_D(_mask, _mask, _mask), _D(0, 0, 0))
_ok(libc.capset(ctypes.byref(_h), ctypes.byref(_d)), "capset")
for _cap in (1, 2):
    _ok(libc.prctl(47, 2, _cap, 0, 0), "PR_CAP_AMBIENT_RAISE")
"""


def natural(fault: str) -> bool:
    """Faults that need no injection: the configuration or the starting account brings them about."""
    return fault.startswith("unknown-") or fault == "started-unprivileged"


def plan(tier: str) -> typing.List[Run]:
    variants = [("ThreadingTCPServer", True)]
    if tier == "thorough":
        variants += [("ForkingTCPServer", True), ("ThreadingTCPServer", False),
                     ("ForkingTCPServer", False)]
    runs: typing.List[Run] = []
    for st, tls in variants:
        for c in (False, True):
            for u in (False, True):
                for g in (False, True):
                    base = Run(c, u, g, None, st, tls)
                    runs.append(base)
                    for call in expected_calls(base):
                        runs.append(base._replace(fault=call))
                        if st == "ThreadingTCPServer" and tls and (tier == "thorough" or (u and g)):
                            # the call keeps failing, with an error a caller might think worth retrying or ignoring
                            for err in ("EAGAIN:1+", "ENOMEM:1+", "EINTR:1+", "EINVAL:1"):
                                runs.append(base._replace(fault=call, err=err))
                    if c:
                        # applies only to a tree that does chdir after chroot (see OPTIONAL)
                        runs.append(base._replace(fault="chdir"))
            # names that do not exist, with and without the other options
            runs.append(Run(c, True, False, "unknown-user", st, tls))
            runs.append(Run(c, False, True, "unknown-group", st, tls))
            runs.append(Run(c, True, True, "unknown-user", st, tls))
            runs.append(Run(c, True, True, "unknown-group", st, tls))
        # started without any privilege, with privileged steps configured: each of them fails, start-up aborts
        for c, u, g in ((True, False, False), (False, True, False), (False, False, True), (True, True, True), (False, True, True)):
            runs.append(Run(c, u, g, "started-unprivileged", st, tls))
        # a value of usechroot that is no boolean must abort start-up, not silently mean 'no chroot'
        runs.append(Run(True, False, False, "unknown-usechroot-value", st, tls))
        runs.append(Run(True, True, True, "unknown-usechroot-value", st, tls))
    # the same start-up as a daemon (detach = yes): every combination; faults on the full combination
    # (quick) or on every combination (thorough)
    # other identities: the configured names mean root (id 0 is a value, not "unset"); the process starts with
    # its real ids already those of the target
    for r in list(runs):
        if r.fault is None and not r.detach and (r.uid or r.gid) and r.servertype == "ThreadingTCPServer" and r.tls:
            runs.append(r._replace(ident="target-root"))
            if r.uid and r.gid:
                runs.append(r._replace(ident="real-is-target"))
            # the usual root login: the supplementary group list is exactly the primary group
            runs.append(r._replace(ident="groups-are-own-gid"))
            # the group database lists the target account as a member of further groups
            runs.append(r._replace(ident="member-of-groups"))
    for r in list(runs):
        if r.ident != "plain":
            continue
        if r.fault is None or (r.fault and not natural(r.fault) and r.fault != "chdir"
                               and (tier == "thorough" or (r.chroot and r.uid and r.gid))):
            runs.append(r._replace(detach=True))
    return runs


# ---- the oracle on a recorded trace ---------------------------------------------------
class Ev(typing.NamedTuple):
    kind: str     # bind | listen | cert | key | chroot | groups | gid | uid | chdir | wait
    text: str
    ok: bool
    injected: bool


def _first_string_arg(args: str) -> typing.Optional[str]:
    m = re.search(r'"((?:[^"\\]|\\.)*)"', args)
    return m.group(1) if m else None


def startup_events(trace: typing.List[spdriver.Sys], main_pid: typing.Union[int, typing.Collection[int]], port: int,
                   cert: str, key: str) -> typing.Tuple[typing.List[Ev], typing.Optional[int]]:
    """The ordered start-up relevant events of the server's main process (for a detaching
    start-up: of the launcher and then of the daemon it forks) and the fd of its listening socket."""
    out: typing.List[Ev] = []
    listen_fd: typing.Optional[int] = None
    pids = {main_pid} if isinstance(main_pid, int) else set(main_pid)
    for s in trace:
        if s.pid not in pids:
            continue
        inj = "INJECTED" in s.err
        if s.name == "bind":
            m = re.match(r"(\d+), \{sa_family=AF_INET6?, sin6?_port=htons\((\d+)\)", s.args)
            if m and int(m.group(2)) == port:
                if s.ok:
                    listen_fd = int(m.group(1))
                out.append(Ev("bind", s.brief(), s.ok, inj))
        elif s.name == "listen":
            m = re.match(r"(\d+),", s.args)
            if m and listen_fd is not None and int(m.group(1)) == listen_fd:
                out.append(Ev("listen", s.brief(), s.ok, inj))
        elif s.name in ("openat", "open"):
            p = _first_string_arg(s.args)
            if p == cert:
                out.append(Ev("cert", s.brief(), s.ok, inj))
            elif p == key:
                out.append(Ev("key", s.brief(), s.ok, inj))
        elif s.name in CLASS_OF:
            # setfsuid/setfsgid(-1) style queries never happen in CPython start-up
            out.append(Ev(CLASS_OF[s.name], s.brief(), s.ok, inj))
        elif s.name in ("chdir", "fchdir"):
            out.append(Ev("chdir", s.brief(), s.ok, inj))
        elif s.name in WAIT_CALLS:
            if listen_fd is None:
                continue
            fd = listen_fd
            hit = False
            if s.name in ("accept4", "accept"):
                hit = re.match(r"%d\b" % fd, s.args) is not None
            elif s.name in ("poll", "ppoll"):
                hit = re.search(r"\{fd=%d\b" % fd, s.args) is not None
            elif s.name in ("select", "pselect6"):
                hit = re.search(r"\[[^\]]*\b%d\b[^\]]*\]" % fd, s.args) is not None
            else:
                hit = True   # epoll: the fd set is not in the arguments; count it
            if hit:
                out.append(Ev("wait", s.brief(), s.ok or s.ret in (None, "?"), inj))
    return out, listen_fd


PRIV = ("chroot", "groups", "gid", "uid")


def order_oracle(r: Run, evs: typing.List[Ev]) -> typing.List[typing.Tuple[str, str]]:
    """[(mechanism key, explanation)] for an ordered event list (possibly the prefix
    left by an aborted start-up)."""
    wit: typing.List[typing.Tuple[str, str]] = []
    kinds = [e.kind for e in evs]
    priv_idx = [i for i, k in enumerate(kinds) if k in PRIV]
    if not priv_idx:
        return wit
    first = priv_idx[0]

    def idx(kind: str, ok_only: bool = False) -> typing.List[int]:
        return [i for i, e in enumerate(evs) if e.kind == kind and (e.ok or not ok_only)]

    # (1) socket and key material before any privilege is given up
    for kind, key in (("bind", "C19/bind-after-privdrop"), ("listen", "C19/listen-after-privdrop")):
        good = [i for i in idx(kind, ok_only=True) if i < first]
        if not good:
            wit.append((key, "no successful %s of the listening socket before %s" % (
                kind, evs[first].text)))
    if r.tls:
        for kind in ("cert", "key"):
            late = [i for i in idx(kind) if i > first]
            early = [i for i in idx(kind, ok_only=True) if i < first]
            if late or not early:
                wit.append(("C19/cert-open-after-privdrop",
                            "%s file %s before the first privileged call %s%s" % (
                                kind, "opened" if early else "not opened", evs[first].text,
                                ("; opened after it: " + evs[late[0]].text) if late else "")))
                break
    # (2) chroot first
    chroots = idx("chroot")
    if r.chroot:
        if not chroots:
            wit.append(("C19/chroot-missing", "usechroot configured, privileged calls %s, no chroot" % (
                [evs[i].text for i in priv_idx],)))
        elif chroots[0] != first:
            wit.append(("C19/chroot-not-first", "%s precedes %s" % (
                evs[first].text, evs[chroots[0]].text)))
    elif chroots:
        wit.append(("C19/unconfigured-chroot", evs[chroots[0]].text))
    # setgroups < gid change < uid change
    groups, gids, uids = idx("groups"), idx("gid"), idx("uid")
    if gids and (not groups or groups[0] > gids[0]):
        wit.append(("C19/setgroups-not-before-gid-change", "%s precedes %s" % (
            evs[gids[0]].text, evs[groups[0]].text if groups else "(no setgroups)")))
    if uids and (not groups or groups[0] > uids[0]):
        wit.append(("C19/setgroups-not-before-uid-change", "%s precedes %s" % (
            evs[uids[0]].text, evs[groups[0]].text if groups else "(no setgroups)")))
    if gids and uids and uids[0] < gids[-1]:
        wit.append(("C19/uid-change-before-gid-change", "%s precedes %s" % (
            evs[uids[0]].text, evs[gids[-1]].text)))
    if not r.uid and uids:
        wit.append(("C19/unconfigured-uid-change", evs[uids[0]].text))
    if not r.gid and gids:
        wit.append(("C19/unconfigured-gid-change", evs[gids[0]].text))
    return wit


def oracle_selftest() -> typing.List[str]:
    """The ordering rules must be silent on the documented order and fire on each
    planned disorder (synthetic traces; guards against a vacuous oracle)."""
    def E(kind, ok=True):
        return Ev(kind, kind, ok, False)

    r = Run(True, True, True, None, "ThreadingTCPServer", True)
    good = [E("cert"), E("key"), E("bind"), E("listen"), E("chroot"), E("groups"), E("gid"),
            E("uid"), E("wait")]
    problems = []
    if order_oracle(r, good):
        problems.append("fires on the documented order: %r" % (order_oracle(r, good),))
    cases = {
        "C19/uid-change-before-gid-change": [0, 1, 2, 3, 4, 5, 7, 6],
        "C19/setgroups-not-before-gid-change": [0, 1, 2, 3, 4, 6, 5, 7],
        "C19/bind-after-privdrop": [0, 1, 4, 5, 6, 7, 2, 3],
        "C19/cert-open-after-privdrop": [2, 3, 4, 5, 6, 7, 0, 1],
        "C19/chroot-not-first": [0, 1, 2, 3, 5, 4, 6, 7],
    }
    for key, perm in cases.items():
        got = [k for k, _ in order_oracle(r, [good[i] for i in perm])]
        if key not in got:
            problems.append("%s does not fire on its synthetic trace (got %r)" % (key, got))
    return problems


# ---- one run of the real server -------------------------------------------------------------
class Obs:
    def __init__(self) -> None:
        self.ready = False
        self.exited: typing.Optional[int] = None
        self.timed_out = False
        self.main_pid: typing.Optional[int] = None
        self.events: typing.List[Ev] = []
        self.listen_fd: typing.Optional[int] = None
        self.syscalls: typing.Dict[str, int] = {}
        self.status: typing.Optional[dict] = None
        self.root_link: typing.Optional[str] = None
        self.cwd_link: typing.Optional[str] = None
        self.stdout = ""
        self.stderr = ""
        self.listing: typing.Optional[bytes] = None
        self.document: typing.Optional[bytes] = None
        self.tls_document: typing.Optional[bytes] = None
        self.client_errors: typing.List[str] = []
        self.connect_after: typing.Optional[bool] = None
        self.answered_after_fault: typing.Optional[bytes] = None
        self.harness_error: typing.Optional[str] = None
        self.addr_in_use = False
        self.wall = 0.0


class Env:
    """What is the same for all runs."""

    def __init__(self, scratch: Scratch):
        import grp
        import pwd

        self.scratch = scratch
        os.chmod(scratch.path, 0o755)
        self.start_cwd = scratch.sub("startdir")     # OUTSIDE every document root
        os.chmod(self.start_cwd, 0o755)
        with open(os.path.join(self.start_cwd, "OUTSIDE-THE-ROOT.txt"), "w") as fp:
            fp.write("this file is not part of any document root\n")
        self.uid = pwd.getpwnam(USER).pw_uid
        self.gid = grp.getgrnam(GROUP).gr_gid
        me = spdriver.proc_status(os.getpid())
        self.my_uid = me["Uid"]
        self.my_gid = me["Gid"]
        self.my_groups = sorted(me.get("Groups", []))
        # a daemon started by root normally carries root's supplementary groups; give the
        # server some so that "supplementary groups are cleared" is observable in /proc
        self.start_groups = sorted(set([0, 4242] + [int(g) for g in self.my_groups]))
        self.my_root = os.readlink("/proc/self/root")
        self.cert = spdriver.CERT
        self.key = spdriver.KEY
        self.n = 0
        # a group database in which the target account is listed as a member of other groups (what "usermod -aG"
        # leaves); substituted for /etc/group in a private mount namespace of the one server process tree
        self.member_group_file = os.path.join(scratch.path, "group-with-memberships")
        lines, added = [], []
        with open("/etc/group") as fp:
            for ln in fp.read().splitlines():
                f = ln.split(":")
                if len(f) == 4 and f[0] not in (GROUP, "root") and len(added) < 3 and f[2].isdigit() and int(f[2]) > 0:
                    f[3] = ",".join([x for x in f[3].split(",") if x] + [USER])
                    added.append(int(f[2]))
                lines.append(":".join(f))
        with open(self.member_group_file, "w") as fp:
            fp.write("\n".join(lines) + "\n")
        os.chmod(self.member_group_file, 0o644)
        self.member_gids = added
        self.member_ns_ok = _mount_ns_works(self.member_group_file) if added else False


def _enter_group_namespace(group_file: str):
    """preexec function: private mount namespace with `group_file` bound over /etc/group."""
    import ctypes
    libc = ctypes.CDLL(None, use_errno=True)     # loaded in the parent: the child of a threaded process only calls
    gf = os.fsencode(group_file)

    def pre():
        if libc.unshare(0x00020000):                                   # CLONE_NEWNS
            raise OSError(ctypes.get_errno(), "unshare")
        if libc.mount(b"none", b"/", None, 0x4000 | 0x40000, None):    # MS_REC | MS_PRIVATE
            raise OSError(ctypes.get_errno(), "mount private")
        if libc.mount(gf, b"/etc/group", None, 0x1000, None):   # MS_BIND
            raise OSError(ctypes.get_errno(), "mount bind")
    return pre


def _mount_ns_works(group_file: str) -> bool:
    import subprocess
    try:
        r = subprocess.run([sys.executable, "-c", "import grp;print(sum(1 for g in grp.getgrall() if %r in g.gr_mem))" % USER],
                           preexec_fn=_enter_group_namespace(group_file), capture_output=True, text=True, timeout=30)
        return r.returncode == 0 and r.stdout.strip().isdigit() and int(r.stdout.strip()) >= 1
    except Exception:
        return False


def make_root(path: str, token: str) -> None:
    os.makedirs(path, exist_ok=True)
    with open(os.path.join(path, "alpha.txt"), "w") as fp:
        fp.write("alpha %s\n" % token)
    os.makedirs(os.path.join(path, "sub"), exist_ok=True)
    with open(os.path.join(path, "sub", "beta.txt"), "w") as fp:
        fp.write("beta %s\n" % token)
    # the document root of a public server can hold anything, e.g. a directory named like the root itself
    # (a root given relatively must not be resolved twice) ...
    nested = os.path.join(path, os.path.basename(path))
    os.makedirs(nested, exist_ok=True)
    with open(os.path.join(nested, "nested.txt"), "w") as fp:
        fp.write("nested %s\n" % token)
    # ... or an account database of its own in which the configured names mean root: names are resolved
    # against the system's, before the root changes
    os.makedirs(os.path.join(path, "etc"), exist_ok=True)
    with open(os.path.join(path, "etc", "passwd"), "w") as fp:
        fp.write("root:x:0:0:root:/:/bin/sh\n%s:x:0:0:not the real one:/:/bin/sh\n" % USER)
    with open(os.path.join(path, "etc", "group"), "w") as fp:
        fp.write("root:x:0:\n%s:x:0:\n" % GROUP)
    with open(os.path.join(path, "etc", "nsswitch.conf"), "w") as fp:
        fp.write("passwd: files\ngroup: files\n")
    for dp, dn, fn in os.walk(path):
        os.chmod(dp, 0o755)
        for f in fn:
            os.chmod(os.path.join(dp, f), 0o644)


def execute(env: Env, r: Run, tag: str, token: str, kind: str = "unrelated") -> Obs:
    o = Obs()
    t0 = time.monotonic()
    wd = env.scratch.sub(tag)
    os.chmod(wd, 0o755)
    root = os.path.join(wd, "root")
    make_root(root, token)
    # every spelling the configuration parser documents for a boolean
    yes = {"unrelated": "yes", "prefix-sibling": "on", "inside-root": "true", "root-itself": "1",
           "relative-root": "yes", "relative-dot": "on"}[kind]
    no = ("no", "off", "false", "0")[sum(map(ord, tag)) % 4]
    over: typing.Dict[str, typing.Optional[str]] = {"usechroot": yes if r.chroot else no}
    if r.detach:
        over["detach"] = ("yes", "on", "true", "1")[sum(map(ord, tag)) % 4]
    if r.fault == "unknown-usechroot-value":
        over["usechroot"] = ("enabled", "y", "si")[sum(map(ord, tag)) % 3]
    tuser, tgroup = ("root", "root") if r.ident == "target-root" else (USER, GROUP)
    if r.uid:
        over["setuid"] = "nosuchuser_vf" if r.fault == "unknown-user" else tuser
    if r.gid:
        over["setgid"] = "nosuchgroup_vf" if r.fault == "unknown-group" else tgroup
    pk: typing.Dict[str, typing.Any] = {"extra_groups": env.start_groups}
    if r.ident == "groups-are-own-gid":
        pk["extra_groups"] = [os.getgid()]
    if r.ident == "member-of-groups":
        pk["preexec_fn"] = _enter_group_namespace(env.member_group_file)
    if r.ident == "target-root":
        pk["group"] = 4242
    elif r.ident == "real-is-target":
        tu, tg = env.uid, env.gid

        launcher = "import os\nos.setregid(%d, 0)\nos.setreuid(%d, 0)" % (tg, tu)
    inject = None
    if r.fault == "started-unprivileged":
        # the daemon is started by an ordinary account (a service unit with User=, a high port): every privileged step
        # that is configured fails by itself
        # (dropped by a launcher inside the traced process: strace itself has to write its log as root)
        # Only the two file-access capabilities survive as ambient ones: in this sandbox the interpreter lives in a
        # directory other accounts cannot enter.  chroot, setgroups and set*id are refused by the kernel.
        launcher = UNPRIVILEGED_LAUNCHER % {"uid": env.uid, "gid": env.gid}
    if r.fault and not natural(r.fault):
        inject = "%s:error=%s:when=%s" % ((r.fault,) + tuple(r.err.split(":")))
    # where the daemon is started from: an unrelated directory, a sibling whose name merely starts
    # with the root's name, a directory inside the root, the root itself -- all must end inside the root
    start_cwd = env.start_cwd
    if kind == "prefix-sibling":
        start_cwd = root + "-staging"
        os.makedirs(start_cwd, exist_ok=True)
        os.chmod(start_cwd, 0o755)
    elif kind == "inside-root":
        start_cwd = os.path.join(root, "sub")
    elif kind == "root-itself":
        start_cwd = root
    elif kind == "relative-root":
        # the root option names the directory relatively to where the daemon is started
        start_cwd = wd
        over["root"] = os.path.basename(root)
    elif kind == "relative-dot":
        start_cwd = root
        over["root"] = "."
    sp = spdriver.ServerProcess(over, root=root, servertype=r.servertype, tls=r.tls,
                                strace_expr=TRACE_EXPR, inject=inject, cwd=start_cwd,
                                workdir=wd, name="srv",
                                popen_kwargs=pk)
    if r.ident == "real-is-target" or r.fault == "started-unprivileged":
        # real ids = the target's, effective and saved ids stay 0 (what a set-uid-root launcher leaves)
        sp.launcher_code = launcher
    try:
        sp.start()
        if r.fault is None:
            o.ready = sp.wait_ready(READY_TIMEOUT)
            if o.ready:
                pid = sp.pid
                if r.detach:
                    # the launcher has exited; the daemon is the other live python process of the session
                    launcher = pid
                    pid = None
                    for _ in range(200):
                        live = [p for p, state, _pp in spdriver.session_members(sp.sid)
                                if p not in (sp.popen.pid, launcher) and state != "Z"]
                        if live:
                            pid = live[0]
                            break
                        time.sleep(0.01)
                try:
                    if pid is None:
                        raise OSError("no daemon process found in the session")
                    o.status = spdriver.proc_status(pid)
                    o.root_link = os.readlink("/proc/%d/root" % pid)
                    o.cwd_link = os.readlink("/proc/%d/cwd" % pid)
                except OSError as e:
                    o.harness_error = "reading /proc/%s: %r" % (pid, e)
                for attr, req, tls in (("listing", b"/\r\n", False),
                                       ("document", b"/alpha.txt\r\n", False),
                                       ("tls_document", b"/alpha.txt\r\n", True)):
                    if tls and not r.tls:
                        continue
                    try:
                        setattr(o, attr, sp.request(req, tls=tls))
                    except Exception as e:  # client-side trouble is never a verdict
                        o.client_errors.append("%s: %s: %s" % (attr, type(e).__name__, e))
            elif sp.alive():
                o.timed_out = True
            else:
                o.exited = sp.wait_exit(5)
        else:
            # an aborted start-up ends the process; a wrongly continued one says "Running."
            deadline = time.monotonic() + READY_TIMEOUT
            while True:
                if spdriver.READY_MARK in sp.stdout_text():
                    o.ready = True
                    break
                if not sp.alive():
                    o.exited = sp.wait_exit(5)
                    break
                if time.monotonic() > deadline:
                    o.timed_out = True
                    break
                time.sleep(0.01)
            if o.ready:
                try:
                    o.answered_after_fault = sp.request(b"/\r\n")
                except Exception as e:
                    o.client_errors.append("after-fault: %s: %s" % (type(e).__name__, e))
            elif o.exited is not None:
                o.connect_after = sp.can_connect()
    except Exception as e:
        o.harness_error = "%s: %s" % (type(e).__name__, e)
    finally:
        try:
            sp.stop()
        except Exception as e:
            o.harness_error = (o.harness_error or "") + " stop: %r" % (e,)
    o.stdout = sp.stdout_text()
    o.stderr = sp.stderr_text()
    o.addr_in_use = "Address already in use" in (o.stdout + o.stderr)
    trace = sp.trace()
    for s in trace:
        if not s.name.startswith(("+", "-")):
            o.syscalls[s.name] = o.syscalls.get(s.name, 0) + 1
    if trace:
        o.main_pid = trace[0].pid
        lineage = [o.main_pid]
        if r.detach:
            # the detaching fork is the first one of the start-up: the daemon is the first other pid traced
            daemon = next((s.pid for s in trace if s.pid != o.main_pid), None)
            if daemon is not None:
                lineage.append(daemon)
                o.exited = None
        o.events, o.listen_fd = startup_events(trace, lineage, sp.port, env.cert, env.key)
        if r.ident == "real-is-target":
            # the launcher's own two calls (setregid(t, 0), setreuid(t, 0)) come before the server exists
            mine = [i for i, e in enumerate(o.events[:4]) if e.kind in ("gid", "uid")][:2]
            o.events = [e for i, e in enumerate(o.events) if i not in mine]
        if r.fault == "started-unprivileged":
            # likewise the launcher's setgroups / setregid / setreuid
            mine = [i for i, e in enumerate(o.events[:5]) if e.kind in ("groups", "gid", "uid")][:3]
            o.events = [e for i, e in enumerate(o.events) if i not in mine]
        for s in trace:
            if s.pid == lineage[-1] and s.name == "+++exit" and o.exited is None:
                o.exited = int(s.args)
        if r.detach:
            o.daemon_pid = lineage[-1] if len(lineage) > 1 else None  # type: ignore[attr-defined]
    o.root_cfg = root  # type: ignore[attr-defined]
    o.root_as_configured = over.get("root") or root  # type: ignore[attr-defined]
    o.port = sp.port   # type: ignore[attr-defined]
    o.wall = time.monotonic() - t0
    return o


def under(path: str, root: str) -> bool:
    root = root.rstrip("/") or "/"
    return root == "/" and path.startswith("/") or path == root or path.startswith(root + "/")


def selectors(listing: bytes) -> typing.Set[str]:
    out = set()
    for ln in listing.split(b"\r\n"):
        f = ln.split(b"\t")
        if len(f) >= 4 and ln[:1] != b"i":
            out.add(f[1].decode("latin-1"))
    return out


def judge(env: Env, r: Run, o: Obs, token: str) -> typing.Tuple[
        typing.List[typing.Tuple[str, dict]], typing.List[str]]:
    """(witnesses, reasons to call this run inconclusive)."""
    wit: typing.List[typing.Tuple[str, dict]] = []
    inc: typing.List[str] = []
    summary = [e.kind + ("" if e.ok else "!") for e in o.events if e.kind != "wait"]
    base = {"run": r.as_dict(), "events": [e.text for e in o.events if e.kind != "wait"][:24],
            "exit": o.exited, "ready": o.ready}

    def add(key: str, **kw) -> None:
        d = dict(base)
        d.update(kw)
        wit.append((key, d))

    if o.harness_error:
        inc.append("harness error in %s: %s" % (r.sig(), o.harness_error))
    if not o.events and not o.harness_error:
        inc.append("empty trace in %s" % (r.sig(),))
    for key, why in order_oracle(r, [e for e in o.events if e.kind != "wait"]):
        add(key, why=why)
    root = o.root_cfg  # type: ignore[attr-defined]
    waits = [e for e in o.events if e.kind == "wait"]

    if r.fault is None:
        if not o.ready:
            if not wit:
                tail = (o.stderr.strip().splitlines() or o.stdout.strip().splitlines() or ["?"])[-1]
                inc.append("start-up without an injected fault did not become ready in %s "
                           "(timed_out=%s exit=%s): %s" % (r.sig(), o.timed_out, o.exited, tail[:200]))
            return wit, inc
        if o.status is None:
            return wit, inc
        # (5)/(3) credentials: all four ids, supplementary groups
        tuid, tgid = (0, 0) if r.ident == "target-root" else (env.uid, env.gid)
        exp_uid = [str(tuid)] * 4 if r.uid else env.my_uid
        exp_gid = [str(tgid)] * 4 if r.gid else (["4242"] * 4 if r.ident == "target-root" else env.my_gid)
        if o.status.get("Uid") != exp_uid:
            add("C19/end-state-uid", expected=exp_uid, observed=o.status.get("Uid"),
                why="real/effective/saved/fs uid of the serving process")
        if o.status.get("Gid") != exp_gid:
            add("C19/end-state-gid", expected=exp_gid, observed=o.status.get("Gid"))
        if r.ident == "groups-are-own-gid" and not (r.uid or r.gid):
            exp_groups_start = [str(os.getgid())]
        else:
            exp_groups_start = None
        exp_groups = [] if (r.uid or r.gid) else exp_groups_start if exp_groups_start is not None else sorted(
            (str(g) for g in env.start_groups) if not hasattr(o, "virt") else env.my_groups)
        if sorted(o.status.get("Groups", [])) != exp_groups:
            add("C19/end-state-groups", expected=exp_groups, observed=o.status.get("Groups"))
        # (3) root and working directory
        exp_root = os.path.realpath(root) if r.chroot else env.my_root
        if o.root_link != exp_root:
            add("C19/end-state-root", expected=exp_root, observed=o.root_link)
        elif not under(o.cwd_link or "", o.root_link or "/"):
            kinds = [e.kind for e in o.events]
            after = kinds[kinds.index("chroot") + 1:] if "chroot" in kinds else []
            detail = dict(root=o.root_link, cwd=o.cwd_link,
                          why="the serving process keeps a working directory outside its new root")
            if r.chroot and "chdir" not in after:
                detail["why"] += "; no chdir/fchdir follows chroot() in the trace"
                add(KNOWN_KEY, **detail)
            else:
                add("C19/cwd-outside-root", **detail)
        # (4) the root the server believes in, and the one it serves
        m = re.search(r"^Running\.  Root is '(.*)'$", o.stdout, re.M)
        exp_line = "/" if r.chroot else getattr(o, "root_as_configured", root)
        if not m or m.group(1) != exp_line:
            add("C19/root-not-rewritten", expected=exp_line, observed=m.group(1) if m else None)
        if o.client_errors:
            inc.append("client-side error in %s: %s" % (r.sig(), o.client_errors[0]))
        if o.listing is not None and selectors(o.listing) != {"/alpha.txt", "/sub", "/root"}:
            add("C19/serves-wrong-root", request="/", response=o.listing[:300])
        want = ("alpha %s\n" % token).encode()
        if o.document is not None and o.document != want:
            add("C19/serves-wrong-root", request="/alpha.txt", response=o.document[:300])
        if o.tls_document is not None and o.tls_document != want:
            add("C19/serves-wrong-root", request="/alpha.txt (TLS)", response=o.tls_document[:300])
        if not waits:
            inc.append("no accept/poll on the listening socket recorded in a serving run %s" % (r.sig(),))
        # every call that is due was made and succeeded
        made = [e.text.split("(")[0] for e in o.events if e.kind in PRIV and e.ok]
        if made != expected_calls(r):
            # not a verdict by itself (the end state decides), but the fault plan relies on it
            base_note = "privileged calls %r differ from the expected %r in %s" % (
                made, expected_calls(r), r.sig())
            if not wit:
                inc.append(base_note)
        return wit, inc

    # ---- fault runs -----------------------------------------------------------------------
    injected = [e for e in o.events if e.injected]
    served = o.ready or bool(waits) or o.answered_after_fault is not None
    if natural(r.fault):
        key = "C19/serves-after-" + r.fault
    else:
        key = "C19/serves-after-failed-" + r.fault
        if not injected:
            # nothing failed, so nothing can be said about abort-on-failure here; the
            # no-fault run of the same combination decides whether the call is missing
            if r.fault in OPTIONAL:
                if not (o.ready or o.exited is not None):
                    inc.append("optional fault run %s neither served nor exited" % (r.sig(),))
            elif not wit:
                inc.append("fault %s was never triggered in %s (call not made?)" % (r.fault, r.sig()))
            return wit, inc
    if served:
        add(key, why="start-up continued to the accept loop after the failure",
            running_line=o.ready, waits_on_listen_fd=len(waits),
            answered=o.answered_after_fault[:200] if o.answered_after_fault else None,
            injected=[e.text for e in injected])
    elif o.exited is None:
        inc.append("fault run %s neither exited nor served within %.0fs" % (r.sig(), READY_TIMEOUT))
    return wit, inc


# ---- in-process fallback (no root / no ptrace) -------------------------------------------
# A child python runs the real initialization.initialize() with recorders substituted for
# os.chroot/chdir/setgroups/set*id, SSLContext.load_cert_chain and socket bind/listen.  The
# recorders keep a model of the credentials instead of changing them.  Same ordering oracle;
# "reached the accept loop" means initialize() returned the server.
INPROC_CHILD = r"""
import errno, json, os, socket, ssl, sys
conf, fault, outpath = sys.argv[1], sys.argv[2], sys.argv[3]
events = []
st = {"uid": [os.getuid(), os.geteuid(), os.geteuid()], "gid": [os.getgid(), os.getegid(), os.getegid()],
      "groups": sorted(os.getgroups()), "root": None, "cwd": os.getcwd(), "chdir_after_chroot": False}
fired = [False]

def rec(kind, text, fn=None):
    def wrapper(*a, **kw):
        ev = {"kind": kind, "text": "%s%r" % (text, a), "ok": True, "injected": False}
        events.append(ev)
        if fault == text and not fired[0]:
            fired[0] = True
            ev["ok"] = False
            ev["injected"] = True
            ev["text"] += " = -1 EPERM (INJECTED)"
            raise PermissionError(errno.EPERM, "Operation not permitted (injected)")
        if fn is not None:
            fn(*a, **kw)
    return wrapper

def _set3(which, r, e, s=None):
    cur = st[which]
    old_r = cur[0]
    if r != -1: cur[0] = r
    if e != -1: cur[1] = e
    if s is not None:
        if s != -1: cur[2] = s
    elif r != -1 or (e != -1 and e != old_r):
        cur[2] = cur[1]

def m_chroot(path):
    st["root"] = os.path.realpath(path)
    st["chdir_after_chroot"] = False
def m_chdir(path):
    st["chdir_after_chroot"] = st["root"] is not None
    if st["root"] is not None and os.path.isabs(path):
        st["cwd"] = os.path.normpath(st["root"] + "/" + path)
    else:
        st["cwd"] = os.path.normpath(os.path.join(st["cwd"], path))

os.chroot = rec("chroot", "chroot", m_chroot)
os.chdir = rec("chdir", "chdir", m_chdir)
os.fchdir = rec("chdir", "fchdir", lambda fd: st.__setitem__("cwd", "(fd)"))
os.setgroups = rec("groups", "setgroups", lambda g: st.__setitem__("groups", sorted(g)))
os.setregid = rec("gid", "setregid", lambda r, e: _set3("gid", r, e))
os.setresgid = rec("gid", "setresgid", lambda r, e, s: _set3("gid", r, e, s))
os.setgid = rec("gid", "setgid", lambda g: _set3("gid", g, g, g))
os.setegid = rec("gid", "setegid", lambda g: _set3("gid", -1, g, st["gid"][2]))
os.setreuid = rec("uid", "setreuid", lambda r, e: _set3("uid", r, e))
os.setresuid = rec("uid", "setresuid", lambda r, e, s: _set3("uid", r, e, s))
os.setuid = rec("uid", "setuid", lambda u: _set3("uid", u, u, u))
os.seteuid = rec("uid", "seteuid", lambda u: _set3("uid", -1, u, st["uid"][2]))

_load = ssl.SSLContext.load_cert_chain
def load_cert_chain(self, certfile, keyfile=None, password=None):
    events.append({"kind": "cert", "text": "load_cert_chain cert=%s" % certfile, "ok": True, "injected": False})
    events.append({"kind": "key", "text": "load_cert_chain key=%s" % keyfile, "ok": True, "injected": False})
    try:
        return _load(self, certfile, keyfile, password)
    except BaseException:
        events[-1]["ok"] = events[-2]["ok"] = False
        raise
ssl.SSLContext.load_cert_chain = load_cert_chain
_bind, _listen = socket.socket.bind, socket.socket.listen
def bind(self, addr):
    events.append({"kind": "bind", "text": "bind%r" % (addr,), "ok": True, "injected": False})
    try:
        return _bind(self, addr)
    except BaseException:
        events[-1]["ok"] = False
        raise
def listen(self, *a):
    events.append({"kind": "listen", "text": "listen%r" % (a,), "ok": True, "injected": False})
    return _listen(self, *a)
socket.socket.bind = bind
socket.socket.listen = listen

result = {"returned": False, "exception": None, "cfg_root": None}
def dump():
    result["events"] = events
    result["state"] = st
    with open(outpath, "w") as fp:
        json.dump(result, fp)
try:
    from pygopherd import initialization
    try:
        server = initialization.initialize(conf)
        result["returned"] = True
        result["cfg_root"] = server.config.get("pygopherd", "root")
        server.server_close()
    except SystemExit as e:
        result["exception"] = "SystemExit(%r)" % (e.code,)
    except BaseException as e:
        result["exception"] = "%s: %s" % (type(e).__name__, e)
finally:
    dump()
sys.exit(0 if result["returned"] else 1)
"""


def execute_inproc(env: Env, r: Run, tag: str, token: str) -> Obs:
    import json
    import subprocess

    o = Obs()
    t0 = time.monotonic()
    wd = env.scratch.sub(tag)
    root = os.path.join(wd, "root")
    make_root(root, token)
    over: typing.Dict[str, typing.Optional[str]] = {"usechroot": "yes" if r.chroot else "no"}
    if r.fault == "unknown-usechroot-value":
        over["usechroot"] = "enabled"
    if r.uid:
        over["setuid"] = "nosuchuser_vf" if r.fault == "unknown-user" else USER
    if r.gid:
        over["setgid"] = "nosuchgroup_vf" if r.fault == "unknown-group" else GROUP
    port = spdriver.reserve_port()
    cfg = spdriver.build_config(root, port, r.servertype, r.tls, over,
                                pidfile=os.path.join(wd, "srv.pid"))
    conf = os.path.join(wd, "srv.conf")
    with open(conf, "w") as fp:
        cfg.write(fp)
    outpath = os.path.join(wd, "inproc.json")
    envv = dict(os.environ, PYTHONPATH=REPO, PYTHONDONTWRITEBYTECODE="1")
    o.root_cfg = root  # type: ignore[attr-defined]
    o.root_as_configured = root  # type: ignore[attr-defined]
    o.port = port      # type: ignore[attr-defined]
    try:
        p = subprocess.run([spdriver.PYTHON, "-c", INPROC_CHILD, conf, r.fault or "-", outpath],
                           cwd=env.start_cwd, env=envv, capture_output=True, timeout=60,
                           start_new_session=True, stdin=subprocess.DEVNULL)
        o.exited = p.returncode
        o.stdout = p.stdout.decode("utf-8", "backslashreplace")
        o.stderr = p.stderr.decode("utf-8", "backslashreplace")
        with open(outpath) as fp:
            res = json.load(fp)
        o.events = [Ev(e["kind"], e["text"], e["ok"], e["injected"]) for e in res["events"]]
        o.ready = bool(res["returned"])
        o.virt = res  # type: ignore[attr-defined]
        if o.ready:
            o.events.append(Ev("wait", "initialize() returned the server", True, False))
        for e in o.events:
            o.syscalls[e.text.split("(")[0].split(" ")[0]] = o.syscalls.get(e.text.split("(")[0].split(" ")[0], 0) + 1
    except subprocess.TimeoutExpired:
        o.timed_out = True
    except Exception as e:
        o.harness_error = "%s: %s" % (type(e).__name__, e)
    o.addr_in_use = "Address already in use" in (o.stdout + o.stderr)
    o.wall = time.monotonic() - t0
    return o


def inproc_end_state(env: Env, r: Run, o: Obs) -> None:
    """Translate the child's credential/root model into the fields judge() reads."""
    st = o.virt["state"]  # type: ignore[attr-defined]
    u, g = st["uid"], st["gid"]
    o.status = {"Uid": [str(x) for x in u + [u[1]]], "Gid": [str(x) for x in g + [g[1]]],
                "Groups": [str(x) for x in st["groups"]]}
    o.root_link = st["root"] or env.my_root
    o.cwd_link = st["cwd"]


# ---- main -----------------------------------------------------------------------------------
def main() -> int:
    chk = Check(PID, "fault_enumeration")
    ok, why = spdriver.strace_works()
    problems = oracle_selftest()
    rule = ("one case = (option combination, injected fault, server type, TLS, detach); distinct = "
            "distinct such tuples for which the real server was started under strace and its "
            "main process's trace was recorded")
    assumptions = [
        "runs as root with CAP_SYS_CHROOT/CAP_SETUID/CAP_SETGID and ptrace (strace -f, -e inject)",
        "users: setuid=%s setgid=%s; x86-64 glibc CPython issues chroot/setgroups/setregid/setreuid" % (USER, GROUP),
        "the server is started with a working directory outside the document root and with "
        "supplementary groups {0, 4242} (Popen extra_groups), so that clearing them is observable",
        "repo under test: %s" % REPO,
    ]
    mode = os.environ.get("VF_C19_MODE") or ("strace" if (os.geteuid() == 0 and ok) else "inproc")
    if mode == "strace" and not (os.geteuid() == 0 and ok):
        chk.note_inconclusive("strace mode requested but unusable: root=%s strace=%s" % (os.geteuid() == 0, why))
        return chk.finish(rule, assumptions)
    if mode != "strace":
        mode = "inproc"
        rule = ("FALLBACK (no root/ptrace: %s): one case = (option combination, injected fault, server "
                "type, TLS) for which the real initialization.initialize() ran in a child process with "
                "recorders substituted for os.chroot/chdir/setgroups/set*id, load_cert_chain, bind/listen"
                % (why if not ok else "euid=%d" % os.geteuid()))
        assumptions[0] = ("in-process fallback: privileged calls are recorded and modelled, not executed; "
                          "no /proc end state, no requests")
        chk.count("mode:inproc-fallback")
    for p in problems:
        chk.note_inconclusive("oracle self-test: " + p)

    runs = plan(chk.tier)
    if chk.replay_case:
        wanted = []
        for w in chk.replay_case.get("witnesses", []):
            d = w.get("run") if isinstance(w, dict) else None
            if d:
                wanted.append((d["combo"], d["fault"], d["servertype"], d["tls"], d.get("detach", False), d.get("ident", "plain"), d.get("err", "EPERM:1")))
        if wanted:
            runs = [r for r in runs if (r.combo, r.fault, r.servertype, r.tls, r.detach, r.ident, r.err) in wanted] or runs
    if mode != "strace":
        runs = [r for r in runs if not r.detach and r.ident == "plain"]
    chk.rng.shuffle(runs)
    sample_traces: typing.List[dict] = []
    exit_codes: typing.Dict[str, int] = {}
    walls: typing.List[float] = []

    with Scratch("c19") as scratch:
        env = Env(scratch)
        if not env.member_ns_ok:
            # no private mount namespace here: the group database cannot be substituted for one process tree
            chk.count("member_of_groups_runs_unavailable", sum(1 for r in runs if r.ident == "member-of-groups"))
            runs = [r for r in runs if r.ident != "member-of-groups"]
        else:
            chk.count("member_of_groups_runs", sum(1 for r in runs if r.ident == "member-of-groups"))

        def one(item: typing.Tuple[int, Run]):
            i, r = item
            token = "tok%d-%06x" % (i, chk.subrng("token", i).getrandbits(24))
            last = None
            # a chrooting start-up is additionally tried from every kind of start directory
            kinds = ["unrelated"]
            if mode == "strace" and r.chroot and r.fault is None:
                kinds = ["prefix-sibling", "inside-root", "root-itself", "relative-root", "relative-dot", "unrelated"]
            elif mode == "strace" and r.fault is None and not r.chroot:
                # without a chroot a relative root keeps meaning "below the directory the daemon was started from"
                kinds = ["relative-root", "unrelated"]
            for k in kinds[:-1]:
                o = execute(env, r, "run%03d-%s" % (i, k), token, kind=k)
                wit, inc = judge(env, r, o, token)
                if wit:
                    for w in wit:
                        if isinstance(w, tuple) and len(w) > 1 and isinstance(w[1], dict):
                            w[1]["started_from"] = k
                    return (r, o, wit, inc, 0)
            for attempt in range(2):
                if mode == "strace":
                    o = execute(env, r, "run%03d-%d" % (i, attempt), token)
                else:
                    o = execute_inproc(env, r, "run%03d-%d" % (i, attempt), token)
                    if o.ready and r.fault is None and hasattr(o, "virt"):
                        inproc_end_state(env, r, o)
                wit, inc = judge(env, r, o, token)
                last = (r, o, wit, inc, attempt)
                if wit or not inc:
                    break
            return last

        with ThreadPoolExecutor(max_workers=16) as ex:
            results = list(ex.map(one, list(enumerate(runs))))

    for r, o, wit, inc, attempt in results:
        chk.count("server_starts", attempt + 1)
        if attempt:
            chk.count("retried_runs")
        walls.append(o.wall)
        for name, n in o.syscalls.items():
            if name in CLASS_OF or name in ("bind", "listen", "chdir", "fchdir", "accept4", "accept",
                                            "poll", "select", "openat", "open"):
                chk.count("syscall:" + name, n)
        for e in o.events:
            chk.count("event:" + e.kind)
            if e.injected:
                chk.count("injected_failures")
        ordered = [e.text for e in o.events if e.kind != "wait"]
        sample = {"run": r.as_dict(), "ordered_events": ordered[:16],
                  "waits_on_listen_fd": sum(1 for e in o.events if e.kind == "wait"),
                  "exit": o.exited, "ready": o.ready}
        if r.fault is None and o.ready:
            chk.count("serving_runs")
            sample.update({"Uid": o.status and o.status.get("Uid"), "Gid": o.status and o.status.get("Gid"),
                           "Groups": o.status and o.status.get("Groups"),
                           "proc_root": o.root_link, "proc_cwd": o.cwd_link})
            if o.listing is not None:
                chk.count("requests_answered")
            if o.document is not None:
                chk.count("requests_answered")
            if o.tls_document is not None:
                chk.count("tls_requests_answered")
        if r.fault is not None:
            chk.count("fault_runs")
            if o.exited is not None:
                exit_codes[str(o.exited)] = exit_codes.get(str(o.exited), 0) + 1
                if o.exited != 0 and not o.ready:
                    chk.count("fault_runs_aborted_nonzero")
            if o.connect_after is False:
                chk.count("connect_refused_after_abort")
        decided = bool(o.events) and not (inc and not wit)
        if r.fault in OPTIONAL and not any(e.injected for e in o.events):
            decided = False
            chk.count("optional_fault_not_applicable")
        full = r.chroot and r.uid and r.gid
        want = full and (r.fault is None or r.fault == "setregid") and len(sample_traces) < 4
        chk.case(r.sig() if decided else None,
                 sample if (want or (r.fault is None and len(chk.samples) < 3)) else None)
        if want:
            sample_traces.append(sample)
        for key, detail in wit:
            chk.witness(key, detail)
        for reason in inc:
            chk.note_inconclusive(reason)

    extra = {
        "planned_runs": len(runs),
        "mode": mode,
        "strace": "strace -f -e trace=%s [-e inject=<call>:error=EPERM:when=1]" % ",".join(TRACE_CALLS),
        "fault_run_exit_codes": exit_codes,
        "sample_traces": sample_traces,
        "per_run_wall_s": {"max": round(max(walls), 2) if walls else None,
                           "mean": round(sum(walls) / len(walls), 2) if walls else None},
        "oracle_selftest": "ok" if not problems else problems,
    }
    return chk.finish(rule, assumptions, extra, exhaustive=True, min_distinct=len([r for r in runs if r.fault not in OPTIONAL]) if not chk.replay_case else 1)


if __name__ == "__main__":
    main_wrapper(main)
