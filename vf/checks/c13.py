"""C13 -- generated HTML, WML and Gopher+ blocks cannot be subverted by data."""
from __future__ import annotations

import os
import re
import typing
import urllib.parse

from vf import common, driver, parsers, reqs, trees, validate
from vf.common import Check, Scratch
from vf.trees import Tree

INERT = "INERT7"
# payloads that may appear anywhere a string may (no slash, usable as file names too)
PAYLOADS_NOSLASH = [
    '"><xss-7 onx-7=1>', "'><xss-7 onx-7='1", "<xss-7>", "&lt;xss-7&gt;", 'a&b<c>d"e\'f', "]]><xss-7>",
    '" onx-7="1', "' onx-7='1", "<!--xss-7", "--><xss-7>", "&#60;xss-7&#62;", "<xss-7 onx-7=1", "x\"y", "&amp", "&",
    "<", ">", "\"", "'", "<b>bold<", "${x}", "%22%3E%3Cxss-7%3E", "\u00e9<xss-7>", "<?xss-7?>",
    # spellings that only become markup if some layer interprets them: regular-expression replacement templates
    # (octal, hex, group references), printf/format syntax, a percent-escape next to live markup
    "\\074xss-7\\040onx-7=1\\076", "\\x3cxss-7\\x3e", "\\g<0>\\1\\n", "\\u003cxss-7\\u003e", "a\\", "%s%(x)s%n{0}{x!r}",
    'up%20to"><xss-7 onx-7=1>', "a%41'><xss-7 onx-7='1", "%3Cxss-7%3E<xss-7>", "100%<xss-7>",
    # nothing but blanks and an equals sign: enough to end an attribute value that is not quoted
    "x onx-7=1 y", " onx-7=alert(1) ", "a\u00a0onx-7=1\u00a0b",
    # look-alikes that only a compatibility normalisation or a lossy re-encoding turns into markup characters
    "\uff1cxss-7 onx-7\uff1d1\uff1e", "\uff02\uff1e\uff1cxss-7\uff1e", "\ufe64xss-7\ufe65", "\uff06lt;xss-7\uff06gt;",
    "\u02c2xss-7\u02c3 \u2039xss-7\u203a", "\u00ab\uff1cxss-7\uff0f\uff1e\u00bb",
]
PAYLOADS_SLASH = ["</TT></A><xss-7>", "</a><xss-7 onx-7=1>", "</p></card><xss-7>", "</TITLE><xss-7>", "<xss-7/>",
                  "</TD></TR><TR onx-7=1>"]


def canary_free(text: str) -> typing.Optional[str]:
    for ev in parsers.html_events(text):
        if ev[0] == "start":
            if ev[1].startswith("xss-"):
                return "element %s" % ev[1]
            for a, _ in ev[2]:
                if a.startswith("onx-"):
                    return "attribute %s on <%s>" % (a, ev[1])
        if ev[0] == "pi" and "xss-" in ev[1]:
            return "processing instruction"
    return None


def header_block_ok(resp_data: bytes) -> typing.Optional[str]:
    try:
        d = parsers.parse_http(resp_data)
    except parsers.Malformed as e:
        return "malformed: %s" % e
    names = [n for n, _ in d["headers"]]
    for n, v in d["headers"]:
        if n == "content-type":
            if not re.fullmatch(rb"[A-Za-z0-9.+-]+/[A-Za-z0-9.+-]+", v):
                return "Content-Type value %r" % v
        elif n == "last-modified":
            if not re.fullmatch(rb"(Mon|Tue|Wed|Thu|Fri|Sat|Sun), \d\d (Jan|Feb|Mar|Apr|May|Jun|Jul|Aug|Sep|Oct|Nov|Dec) \d{4} "
                                rb"\d\d:\d\d:\d\d GMT", v):
                return "Last-Modified value %r" % v
        else:
            return "header %r not chosen by the server" % n
    if names.count("content-type") != 1:
        return "%d Content-Type headers" % names.count("content-type")
    if not re.fullmatch(rb"(OK|Not Found)", d["reason"]):
        return "reason phrase %r" % d["reason"]
    return None


# ------------------------------------------------------------------ positions
# each position: build(tree, payload) and requests(payload) -> [(label, view, selector, prequoted)]
def sel_q(s: str) -> bytes:
    return urllib.parse.quote(s.encode("utf-8", "surrogateescape"), safe="/").encode()


class Position:
    name = "?"
    slash_ok = True
    full = False

    long_ok = True      # payloads of several hundred characters are expressible here (not so in a file name)

    def extra_payloads(self) -> typing.List[str]:
        """Position-specific spellings of the payloads (an encoding some layer may undo)."""
        return []

    def build(self, t: Tree, p: str) -> None:
        pass

    def requests(self, p: str) -> typing.List[typing.Tuple[str, bytes]]:
        """(view, selector bytes)"""
        return []


class ErrorPageSelector(Position):
    name = "request-selector-in-error-page"

    def requests(self, p):
        return [(v, ("/nonexistent/" + p).encode("utf-8", "surrogateescape")) for v in ("http", "https", "wap")]


class FileName(Position):
    long_ok = False
    name = "file-name-in-listing"
    slash_ok = False

    def build(self, t, p):
        t.file("d/" + p + ".txt", "x\n")
        t.file("d/other.txt", "y\n")
        # ... and as the last of more entries than a WAP card has access keys for
        for k in range(13):
            t.file("d2/a%02d.txt" % k, "x\n")
        t.file("d2/zz" + p + ".txt", "x\n")

    def requests(self, p):
        return [(v, b"/d") for v in ("http", "https", "wap")] + [(v, b"/d2") for v in ("http", "wap")]


class DirName(Position):
    long_ok = False

    def extra_payloads(self):
        # a directory whose own name begins like a URL: selector (only 'URL:scheme://...' is one)
        return ['URL:"><xss-7 onx-7=1>', "URL:'><xss-7 onx-7='1", 'URL:x"><xss-7>', "URL:mailto:a\"><xss-7>"]
    name = "directory-name-in-title"
    slash_ok = False

    def build(self, t, p):
        t.file("top/" + p + "/inside.txt", "x\n")
        t.file(p + "/sub/inside.txt", "x\n")           # also directly under the root, with a sub-directory

    def requests(self, p):
        pe = p.encode("utf-8", "surrogateescape")
        return [(v, b"/top/" + pe) for v in ("http", "https", "wap")] + [(v, b"/top") for v in ("http", "wap")] + \
               [(v, b"/" + pe) for v in ("http", "https", "wap")] + [(v, b"/" + pe + b"/sub") for v in ("http", "wap")]


class HtmlTitle(Position):
    name = "html-title"

    def build(self, t, p):
        t.file("h/page.html", "<html><head><title>%s</title></head><body>b</body></html>" % p.replace("<", "&lt;").replace(">", "&gt;")
               .replace("&lt;xss", "&lt;xss"))
        t.file("h/raw.html", "<html><head><title>t " + p.replace("</TITLE>", "").replace("</title>", "") + "</title></head></html>")

    def requests(self, p):
        return [(v, b"/h") for v in ("http", "https", "wap")]


class MailSubject(Position):
    name = "mail-subject"

    def __init__(self, scratch):
        self.scratch = scratch

    def build(self, t, p):
        t.file("mail.mbox", trees.make_mbox(["plain subject", p, "Re: " + p], self.scratch))

    def extra_payloads(self):
        # RFC 2047 encoded words spelling markup: inert text unless something decodes them
        import base64
        out = []
        for raw in ('"><xss-7 onx-7=1>', "</TT></A><xss-7>", "<xss-7>"):
            q = "".join("=%02X" % b for b in raw.encode())
            out.append("=?utf-8?q?%s?=" % q)
            out.append("=?utf-8?b?%s?=" % base64.b64encode(raw.encode()).decode())
            out.append("=?iso-8859-1?Q?%s?= tail" % q)
        return out

    def requests(self, p):
        return [(v, b"/mail.mbox") for v in ("http", "https", "wap")]


class Abstract(Position):
    name = "sidecar-abstract"

    def build(self, t, p):
        t.file("a/doc.txt", "x\n")
        t.file("a/doc.txt.abstract", "first line\n" + p + "\nlast " + p)
        t.file("a/.abstract", "dir abstract " + p)

    def requests(self, p):
        return [(v, b"/a") for v in ("http", "https", "wap")]


class GophermapDesc(Position):
    name = "gophermap-description-and-selector"

    def build(self, t, p):
        body = ("info " + p + "\n0Desc " + p + "\t/g/x.txt\n1Rel " + p + "\tsub " + p.replace("/", "_") + "\n"
                "hWeb\tURL:http://example.org/" + p + "\nhWeb2 " + p + "\tURL:http://example.org/ok\n"
                "1Remote " + p + "\t/sel " + p + "\thost.example.org\t70\n1Evilhost\t/s\thost" + p.replace("/", "_") + "\t70\n"
                # search items: rendered as forms, not as links
                "7Find " + p + "\t/g/find " + p + "\n7Findremote\t/find\tsearch.example.org " + p.replace("/", "_") + "\t70\n"
                "7Findurl\tURL:http://example.org/find " + p + "\n7Findremote2 " + p + "\t/f " + p + "\tsearch.example.org\t70\n")
        t.file("g/gophermap", body)
        t.file("g/x.txt", "x\n")
        # the same entries after more links than a WAP card has access keys for
        filler = "".join("0Filler %d\t/g/x.txt\n" % k for k in range(13))
        t.file("g2/gophermap", filler + body.replace("/g/", "/g2/"))
        t.file("g2/x.txt", "x\n")

    def requests(self, p):
        return [(v, b"/g") for v in ("http", "https", "wap")] + [(v, b"/g2") for v in ("http", "wap")]


class ItemTypeChar(Position):
    """The item-type character is content too: the first character of a gophermap line, the character after Type= in a
    link file.  Whatever it is, it must not change the page's markup (compared with an unknown type that is inert)."""
    name = "item-type-character"

    def build(self, t, p):
        typ = p[0] if p != INERT and not p[0].isalnum() and not p[0].isspace() and p[0] not in "-+" else "?"
        rest = p[1:] if typ != "?" else ""
        t.file("ty/gophermap", "info\n" + typ + "Typed" + "\t/ty/x.txt\n" + typ + "Typed remote\t/s\thost.example.org\t70\n"
               + typ + rest.replace("\t", " ") + "\t/ty/x.txt\n0Plain\t/ty/x.txt\n")
        t.file("ty/x.txt", "x\n")
        t.file("tl/real.txt", "x\n")
        t.file("tl/.Links", "Name=Typed\nType=" + typ + rest + "\nPath=/typed\nHost=+\nPort=+\n\n"
               "Name=Typed remote\nType=" + typ + "\nPath=/typed\nHost=remote.example\nPort=70\n\n"
               "Path=./real.txt\nType=" + typ + "\n")

    def requests(self, p):
        return [(v, s) for s in (b"/ty", b"/tl") for v in ("http", "https", "wap")]


class LinkFile(Position):
    name = "link-file-name-and-path"

    def build(self, t, p):
        t.file("l/real.txt", "x\n")
        t.file("l/.Links", "Name=Link " + p + "\nType=1\nPath=/somewhere/" + p + "\nHost=+\nPort=+\n\n"
               "Name=URL " + p + "\nType=h\nPath=/URL:http://example.org/" + p + "\nHost=+\nPort=+\n\n"
               "Name=Remote\nType=1\nPath=/r" + p + "\nHost=h" + p.replace("/", "_").replace(" ", "_") + ".example\nPort=70\n\n"
               "Path=./real.txt\nName=Renamed " + p + "\nAbstract=abs " + p + " (end)\n\n"   # (a trailing backslash would continue the line)
               # entries without a Name=: whatever is shown instead comes from the path
               "Type=1\nPath=/nameless/" + p + "\nHost=+\nPort=+\n\n"
               "Type=0\nPath=/nameless-q/" + urllib.parse.quote(p, safe="") + "\nHost=+\nPort=+\n\n"
               "Type=h\nPath=/URL:http://example.org/nameless/" + p + "\nHost=+\nPort=+\n\n"
               "Type=h\nPath=/URL:http://example.org/nameless-q/" + urllib.parse.quote(p, safe="") + "\nHost=+\nPort=+\n\n"
               "Type=1\nPath=/rn" + p + "\nHost=remote.example\nPort=70\n\n"
               "Type=1\nPath=/rnq" + urllib.parse.quote(p, safe="") + "\nHost=remote.example\nPort=70\n\n"
               # search items (forms), local and remote
               "Name=Find " + p + "\nType=7\nPath=/find " + p + "\nHost=+\nPort=+\n\n"
               "Name=Findremote\nType=7\nPath=/find\nHost=search.example " + p.replace("/", "_") + "\nPort=70\n\n"
               "Name=Findurl\nType=7\nPath=/URL:http://example.org/find " + p + "\nHost=+\nPort=+\n")
        # the same link file in a directory with more entries than a WAP card has access keys for; the
        # links sort after the files
        for k in range(13):
            t.file("l2/ %02d.txt" % k, "x\n")          # (sorts before every payload-derived name)
        t.file("l2/real.txt", "x\n")
        t.nodes[b"l2/.Links"] = dict(t.nodes[b"l/.Links"])
        t.nodes[b"l2/.Links"]["data"] = t.nodes[b"l/.Links"]["data"].replace(b"Name=", b"Name=zz ")

    def requests(self, p):
        return [(v, b"/l") for v in ("http", "https", "wap")] + [(v, b"/l2") for v in ("http", "wap")]


class UrlRedirect(Position):
    name = "url-redirect-page"

    def requests(self, p):
        return [(v, ("URL:http://example.org/" + p).encode("utf-8", "surrogateescape")) for v in ("http", "https", "gopher")] + \
               [("http", ("/URL:http://example.org/?q=" + p).encode("utf-8", "surrogateescape"))]


class RequestHeaders(Position):
    """Text the client sends *beside* the selector: header values of an HTTP/HTTPS/WAP request for a directory page."""
    name = "http-request-header-values"
    slash_ok = True

    def build(self, t, p):
        t.file("hd/one.txt", "1\n")
        t.file("hd/sub/two.txt", "2\n")
        t.file("hm/gophermap", "Info line\n0One\t/hd/one.txt\n1Sub\t/hd/sub\n")

    def raw_requests(self, p):
        out = []
        v = p.encode("utf-8", "surrogateescape").replace(b"\r", b" ").replace(b"\n", b" ")
        header_sets = [b"Host: " + v, b"Host: " + v + b":70", b"Host: verif.example\r\nUser-Agent: " + v,
                       b"Host: verif.example\r\nReferer: " + v, b"Host: verif.example\r\nX-Forwarded-Host: " + v,
                       b"Host: verif.example\r\nAccept: text/html, " + v, b"Host: " + v + b"\r\nHost: verif.example",
                       b"Host: verif.example\r\nX-Wap-Profile: " + v + b"\r\nAccept: text/vnd.wap.wml"]
        for hs in header_sets:
            for target, tls in ((b"/hd", False), (b"/", False), (b"/hm", True), (b"/wap/hd", False), (b"/nonexistent", False)):
                out.append(("https" if tls else ("wap" if target.startswith(b"/wap") else "http"), target,
                            b"GET " + target + b" HTTP/1.0\r\n" + hs + b"\r\n\r\n", tls))
        return out


class TextToWml(Position):
    name = "text-converted-to-wml"

    def build(self, t, p):
        t.file("w/doc.txt", "before\n" + p + "\n\nmiddle " + p + " end\n" + p)

    def requests(self, p):
        return [("wap", b"/w/doc.txt")]


class ScriptOutputInWml(Position):
    """What a script prints (here: the search string it was given) is text like any other file's when WAP turns it into
    a deck, whoever hands the bytes to whom on the way."""
    name = "script-output-converted-to-wml"
    full = True
    query_is_payload = True

    def build(self, t, p):
        t.file("s/echo.sh", b"#!/bin/sh\nprintf 'you asked for: %s\\n' \"$SEARCHREQUEST\"\nprintf 'line two\\n'\n", mode=0o755)

    def requests(self, p):
        return [("wap", b"/s/echo.sh"), ("http", b"/s/echo.sh"), ("wapauto", b"/s/echo.sh")]


class SearchString(Position):
    name = "search-string"
    query_is_payload = True

    def requests(self, p):
        return [(v, b"/nonexistent-search") for v in ("http", "wap")]


def fetch(site: driver.Site, view: str, sel: bytes, query: typing.Optional[bytes] = None):
    req, tls = reqs.render(view, sel, query)
    return req, site.request(req, tls=tls)


_error_baselines: typing.Dict[str, typing.Any] = {}


def fetch_error_baseline(view: str, sc: Scratch):
    if view not in _error_baselines:
        root = sc.sub("errbase")
        Tree().file("keep.txt", "k\n").materialize(root)
        site = driver.Site(root)
        try:
            _error_baselines[view] = fetch(site, view, b"/nonexistent/" + INERT.encode())
        finally:
            site.close()
    return _error_baselines[view]


def run_position(chk: Check, sc: Scratch, pos: Position, payloads: typing.List[str], idx: int) -> None:
    # inert baseline
    def serve(p: str, tag: str):
        root = sc.sub("%s-%d-%s" % (pos.name[:12], idx, tag))
        t = Tree()
        t.file("keep.txt", "k\n")
        pos.build(t, p)
        t.materialize(root)
        site = driver.Site(root, handlers=driver.HANDLERS_FULL if pos.full else None)
        out = []
        try:
            if hasattr(pos, "raw_requests"):
                for view, sel, req, tls in pos.raw_requests(p):
                    out.append((view, sel, req, site.request(req, tls="mock" if tls else False)))
            else:
                for view, sel in pos.requests(p):
                    q = p.encode("utf-8", "surrogateescape") if getattr(pos, "query_is_payload", False) else None
                    req, r = fetch(site, view, sel, q)
                    out.append((view, sel, req, r))
        finally:
            site.close()
        return out

    base = serve(INERT, "inert")
    for pi, p in enumerate(payloads):
        hostile = serve(p, "h%d" % pi)
        for (view, sel, req, r), (_, _, _, rb) in zip(hostile, base):
            chk.count("pages_checked")
            sample = {"position": pos.name, "payload": p, "view": view, "selector": sel, "reply": r.data[:300], "log": r.log[:2]}
            fam = reqs.VIEWS[view][0]
            if r.escaped or [e for e in r.exceptions() if not validate.is_io_error_name(e)]:
                chk.witness("C13/request-crashed:%s" % pos.name, dict(sample, escaped=r.escaped[:1]))
                continue
            vh = validate.validate(r, req)
            vb = validate.validate(rb, req)
            if vh.ok and vh.klass == "error" and not (vb.ok and vb.klass == "error"):
                # the hostile form was refused (e.g. the URL handler declines quotes): judge the
                # error reply it got instead, against the protocol's ordinary error reply
                if fam == "gopher":
                    chk.count("refused_with_gopher_error_line")
                    continue
                _, rb = fetch_error_baseline(view, sc)
            if fam == "gopher":
                body, bbody = r.data, rb.data
            else:
                why = header_block_ok(r.data)
                if why:
                    chk.witness("C13/http-header-block:%s" % pos.name, dict(sample, why=why))
                    continue
                body = parsers.parse_http(r.data)["body"]
                bbody = parsers.parse_http(rb.data)["body"]
            text = body.decode("utf-8", "surrogateescape")
            btext = bbody.decode("utf-8", "surrogateescape")
            ct = dict(parsers.parse_http(r.data)["headers"]).get("content-type", b"") if fam != "gopher" else b"text/html"
            if ct not in (b"text/html", b"text/vnd.wap.wml"):
                chk.count("non_markup_replies")
                continue
            bad = canary_free(text)
            if bad:
                chk.witness("C13/markup-injected:%s:%s" % (pos.name, fam), dict(sample, found=bad))
                continue
            sk, bsk = parsers.html_skeleton(text), parsers.html_skeleton(btext)
            if sk != bsk:
                i = next((k for k, (a, b) in enumerate(zip(sk, bsk)) if a != b), min(len(sk), len(bsk)))
                chk.witness("C13/structure-changed:%s:%s" % (pos.name, fam), dict(sample, index=i, hostile=sk[i:i + 3], inert=bsk[i:i + 3]))
                continue
            chk.case((pos.name, fam, p), sample if chk.evaluations % 211 == 0 else None)


def gopherplus_blocks(chk: Check, sc: Scratch) -> None:
    """Sidecar content that looks like block headers / items must stay content."""
    hostile_lines = ["+INFO: 1fake\t/fake\thost.example\t70", "+ADMIN:", " Admin: evil <e@x>", "+VIEWS:", " text/evil: <9k>",
                     "+ABSTRACT:", "+", "+-1", "+3D:", "", " ", "\t+INFO: tab", "+INFO: 0x\t/y\tz\t1\t+", "plain line",
                     "+FAKE: x", "+URL: http://evil/",
                     # lines longer than a terminal is wide, laid out so that a piece after a word boundary begins with '+'
                     "w " * 37 + "+ADMIN:", "x" * 75 + " +INFO: 1fake\t/fake\thost.example\t70", ("word " * 15 + "+VIEWS: ") * 3,
                     "y" * 78 + " +ABSTRACT:", "z" * 200 + " +3D: x"]
    rng = chk.subrng("gplus")
    for i in range(25):
        root = sc.sub("gp%d" % i)
        t = Tree()
        names = ["a.txt", "b.txt", "c.txt"]
        sidecars = {}
        for n in names:
            t.file("d/" + n, "x\n")
            exts = [e for e in (".abstract", ".keywords", ".ask", ".3d") if rng.random() < 0.6]
            sidecars[n] = exts
            for e in exts:
                lines = [rng.choice(hostile_lines) for _ in range(rng.randrange(1, 6))]
                t.file("d/" + n + e, rng.choice(["\n", "\r\n"]).join(lines) + rng.choice(["", "\n"]))
        # HTML titles that spell line breaks and block headers as character references
        titles = ["Hello&#13;&#10;+ADMIN:&#13;&#10; Admin: Mallory &lt;m@evil&gt;", "A&NewLine;+INFO: 1x&Tab;/y&Tab;h.example&Tab;70",
                  "B&#10;+VIEWS:&#10; text/evil: &lt;9k&gt;", "C&#x0d;&#x0a;+FAKE: x", "plain title"]
        # file names that hold line breaks followed by what would be a block header or an item (a name is content too)
        hostile_names = ["n\r\n+ADMIN:\r\n Admin: Mallory", "o\n+VIEWS:\n text/evil: <9k>.txt", "p\r+FAKE: x", "q\r\n+INFO: 1fake",
                         "r\n1forged item", "s \r\n.\r\n"]
        t.file("d/" + hostile_names[i % len(hostile_names)], "x\n")
        tfile = "t%d.html" % i
        t.file("d/" + tfile, "<html><head><title>%s</title></head><body>x</body></html>" % titles[i % len(titles)])
        names.append(tfile)
        sidecars[tfile] = []
        # mail subjects that spell line breaks and block headers inside RFC 2047 encoded words
        import base64
        enc_subjects = ["=?utf-8?q?Hello=0D=0A+ADMIN:=0D=0A_Admin:_Mallory?=",
                        "=?utf-8?b?%s?=" % base64.b64encode(b"Hi\r\n+ABSTRACT:\r\n forged abstract").decode(),
                        "=?iso-8859-1?Q?x=0A+INFO:_1fake=09/fake=09h.example=0970?=", "plain subject",
                        "folded\n +VIEWS:\n  text/evil: <9k>"]
        nmsg = 3
        subj = [enc_subjects[(i + k) % len(enc_subjects)] for k in range(nmsg)]
        t.file("m/box.mbox", trees.make_mbox(subj, sc.path))
        t.subtree(b"m/mdir", trees.maildir_tree(subj))
        t.materialize(root)
        # entry abstracts would legitimately add informational items; keep them out of this listing
        site = driver.Site(root, overrides={("pygopherd", "abstract_entries"): "never", ("pygopherd", "abstract_headers"): "off",
                                            ("handlers.UMN.UMNDirHandler", "extstrip"): "none"},
                           handlers=driver.HANDLERS_FULL)
        try:
            _, plain = fetch(site, "gopher", b"/d")
            try:
                plain_lines = parsers.parse_gopher_menu(plain.data)
            except parsers.Malformed as e:
                chk.witness("C13/gopher-menu-line-broken-by-content", {"reply": plain.data[:400], "error": str(e)})
                return
            listed = [d["selector"].rsplit(b"/", 1)[-1].decode() for d in plain_lines]
            for view, sel, nitems in (("gopherp$", b"/d", len(listed)), ("gopherp!", b"/d/a.txt", 1), ("gopherps$", b"/d", len(listed)),
                                      ("gopherp!", b"/d/" + tfile.encode(), 1),
                                      ("gopherp$", b"/m/box.mbox", nmsg), ("gopherp!", b"/m/box.mbox|/MBOX-MESSAGE/%d" % (1 + i % nmsg), 1),
                                      ("gopherp$", b"/m/mdir", nmsg), ("gopherp!", b"/m/mdir|/MAILDIR-MESSAGE/%d" % (1 + i % nmsg), 1)):
                req, r = fetch(site, view, sel)
                chk.count("gopherplus_listings_checked")
                v = validate.validate(r, req)
                sample = {"view": view, "selector": sel, "sidecars": sidecars, "reply": r.data[:500]}
                if not v.ok or v.klass != "info":
                    chk.witness("C13/gopherplus-listing-unparsable", dict(sample, reason=v.reason))
                    return
                items = v.parsed["items"]
                if len(items) != nitems:
                    chk.witness("C13/gopherplus-content-became-item", dict(sample, items=len(items), expected=nitems))
                    return
                order = {"ABSTRACT": 0, "KEYWORDS": 1, "ASK": 2, "3D": 3}
                in_mail = sel.startswith(b"/m/")
                for item, n in zip(items, ["(message)"] * nitems if in_mail else
                                   (listed if nitems != 1 else [sel.rsplit(b"/", 1)[-1].decode()])):
                    blocks = [b[0] for b in item]
                    want_extra = sorted((e[1:].upper() for e in sidecars.get(n, [])), key=lambda x: order[x])
                    if blocks[:3] != ["INFO", "ADMIN", "VIEWS"] or sorted(blocks[3:], key=lambda x: order.get(x, 9)) != want_extra \
                            or len(blocks[3:]) != len(want_extra):
                        chk.witness("C13/gopherplus-content-became-block", dict(sample, file=n, blocks=blocks, expected_extra=want_extra))
                        return
                chk.case(("gopherplus", view, tuple(sorted(sum(sidecars.values(), []))))[:3], sample if i % 9 == 0 else None)
        finally:
            site.close()


def main() -> int:
    chk = Check("C13", "exploration")
    quick = chk.tier == "quick"
    with Scratch("c13") as sc:
        positions: typing.List[Position] = [ErrorPageSelector(), FileName(), DirName(), HtmlTitle(), MailSubject(sc.path),
                                            Abstract(), GophermapDesc(), ItemTypeChar(), LinkFile(), UrlRedirect(), TextToWml(), SearchString(), ScriptOutputInWml(),
                                            RequestHeaders()]
        rng = chk.rng
        for i, pos in enumerate(positions):
            pl = list(PAYLOADS_NOSLASH) + (PAYLOADS_SLASH if pos.slash_ok else [])
            extra = pos.extra_payloads()
            if quick:
                pl = pl + extra[:4]
            else:
                # thorough: also seeded combinations
                pl += [rng.choice(PAYLOADS_NOSLASH) + rng.choice(PAYLOADS_NOSLASH) for _ in range(40)] + extra
            # the same payloads inside long values (code that abbreviates, folds or wraps long text)
            lengths = [105, 180] + ([300, 1100] if pos.long_ok else [])
            longs = []
            for k, base in enumerate(pl[:2] + ([pl[-1]] if not quick else [])):
                for n in lengths if not quick else lengths[k % 2::2]:
                    pad = max(0, n - len(base))
                    lead = min(pad, [20, 60, 90][(k + n) % 3])
                    longs.append("A" * lead + base + "B" * (pad - lead))
            run_position(chk, sc, pos, pl + longs, i)
        gopherplus_blocks(chk, sc)
    return chk.finish(
        rule="case = (echo position, protocol family, payload): the page for hostile data must have the same element/"
             "attribute-name skeleton as the page for inert data of the same shape, no canary element/attribute may "
             "appear in the parse, the HTTP header block may hold only the status line, Last-Modified and one "
             "Content-Type; Gopher+ attribute listings built from sidecar files full of block-header look-alikes must "
             "parse into exactly the expected items and block names",
        assumptions=["HTML/WML parsed with the stdlib html.parser (convert_charrefs)",
                     "double escaping is not counted as a violation (it is still escaped text)"])


if __name__ == "__main__":
    common.main_wrapper(main)
