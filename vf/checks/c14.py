"""C14 -- concurrent clients are isolated from one another.

The real bin/pygopherd process (threading and forking server, TLS enabled) is hit by 16
clients in flight with mixed-protocol requests drawn from few selectors, while the harness
removes and ages cache files; every reply must equal the reply a *separate*, never
concurrent server process gives for the same request on a copy of the tree."""
from __future__ import annotations

import itertools
import os
import random
import shutil
import socket
import ssl
import threading
import time
import typing
from concurrent.futures import ThreadPoolExecutor

from vf import common, driver, reqs, spdriver, trees, validate
from vf.common import Check, Scratch
from vf.trees import Tree

INFLIGHT = 16


def build_tree(sc: Scratch) -> Tree:
    rng = random.Random(14)
    t = Tree()
    for i in range(10):
        t.file("hot/file%02d.txt" % i, "hot file %d\n" % i)
        if i % 3 == 0:
            t.file("hot/file%02d.txt.abstract" % i, "abstract %d" % i)
    t.file("hot/page.html", "<html><title>Hot Page</title></html>")
    t.file("hot/sub/x.txt", "x\n")
    t.file("hot/.names", "Path=./file03.txt\nName=Renamed Three\nNumb=1\n")
    t.file("hot/.abstract", "The hot directory")
    # several more directories, so that different directories are being listed (and their caches written) at once
    for k in range(6):
        for i in range(5):
            t.file("many/d%d/f%d.txt" % (k, i), "d%d f%d\n" % (k, i))
        t.file("many/d%d/.abstract" % k, "Directory number %d" % k)
    t.file("small.txt", "small\n")
    t.file("large.bin", trees.gen_content(rng, 300000, "binary"))
    # several large documents, each block of each naming its file and offset: foreign bytes are recognisable
    for k in range(4):
        t.file("big%d.txt" % k, b"".join(b"big%d@%09d|" % (k, off) + b"x" * 48 + b"\n" for off in range(0, 400000 + 70000 * k, 64)))
    subjects = ["Message number %d" % i for i in range(1, 13)]
    bodies = ["".join("mbox message %d line %d %s\n" % (i, ln, "y" * 40) for ln in range(60 + 5 * i)) for i in range(1, 13)]
    t.file("mail.mbox", trees.make_mbox(subjects, sc.path, bodies=bodies))
    z = Tree().file("m1.txt", "member one\n" * 40).file("sub/m2.txt", "member two\n").file("sub/m3.html", "<html><title>M3</title></html>")
    for i in range(30):
        z.file("many/f%02d.txt" % i, "f%d" % i)
    t.file("arch.zip", z.to_zip())
    t.file("cgi.sh", trees.script_echo_env(), mode=0o755)
    # a script that takes a moment (shell built-ins only), in a sub-directory of its own
    t.file("bin/slow.sh", b"#!/bin/sh\ni=0\nwhile [ $i -lt 30000 ]; do i=$((i+1)); done\necho slow script done\n", mode=0o755)
    t.file("gm/gophermap", "Welcome\n0Small\t/small.txt\n1Hot\t/hot\n")
    # template pages that say, a few thousand times, which request they are being expanded for
    for nm in ("a", "b", "c"):
        t.file("tpl/%s.html.tal" % nm, ('<html><body><h1 tal:content="selector">s</h1><div tal:repeat="x python:range(12)">'
                                        '<div tal:repeat="y python:range(12)"><p tal:repeat="z python:range(15)">'
                                        '<b tal:content="selector">s</b> %s <i tal:content="talbasename">t</i> '
                                        '<u tal:content="repeat/z/number">z</u></p></div></div>'
                                        '<h2 tal:content="selector">s</h2></body></html>') % nm)
    t.file("packed.txt.gz", trees.gz(b"packed payload\n" * 500))
    return t


def request_mix() -> typing.List[typing.Tuple[str, bytes, typing.Optional[bytes]]]:
    mix = []
    for v in ("gopher", "gophers", "gopherp+", "gopherp$", "gopherps$", "http", "https", "wap", "gemini", "spartan"):
        mix.append((v, b"/hot", None))
    for k in range(6):
        for v in ("gopher", "http", "gemini", "gopherp$", "spartan", "wap"):
            mix.append((v, b"/many/d%d" % k, None))
    for v in ("gopher", "http", "gemini", "gopherp$", "spartan"):
        mix.append((v, b"/arch.zip", None))
        mix.append((v, b"/arch.zip/many", None))
    for v in ("gopher", "https", "gemini"):
        mix.append((v, b"/arch.zip/m1.txt", None))
        mix.append((v, b"/arch.zip/sub", None))
    for v in ("gopher", "http", "gemini"):
        mix.append((v, b"/mail.mbox", None))
        mix.append((v, b"/mail.mbox|/MBOX-MESSAGE/2", None))
    for v in ("gopher", "gophers", "http", "gemini", "spartan"):
        mix.append((v, b"/cgi.sh", b"query %s" % v.encode()))
        mix.append((v, b"/cgi.sh", None))
    for v in ("gopher", "gophers", "http", "gemini", "spartan", "gopherp+"):
        mix.append((v, b"/bin/slow.sh", None))
    for nm in (b"a", b"b", b"c"):
        for v in ("gopher", "http", "gemini", "gophers"):
            mix.append((v, b"/tpl/" + nm + b".html.tal", None))
    for v in ("gopher", "gopherps+", "https", "spartan"):
        mix.append((v, b"/small.txt", None))
        mix.append((v, b"/large.bin", None))
    for v in ("wapauto", "http", "wapauto", "http"):
        mix.append((v, b"/hot/file01.txt", None))
        mix.append((v, b"/hot/sub", None))
    for v in ("gopher", "http", "gemini", "wap"):
        mix.append((v, b"/", None))
        mix.append((v, b"/gm", None))
        mix.append((v, b"/nope", None))
        mix.append((v, b"/packed.txt.gz", None))
    mix.append(("http", b"/PYGOPHERD-HTTPPROTO-ICONS/text.gif", None))
    # requests that are answered without a body (the handler is prepared, its content never asked for)
    for v in ("httphead", "waphead"):
        for sel in (b"/hot", b"/", b"/gm", b"/arch.zip", b"/arch.zip/many", b"/small.txt", b"/mail.mbox", b"/nope", b"/hot/sub"):
            mix.append((v, sel, None))
    # different large documents and different messages of one mailbox, in flight together
    for k in range(4):
        for v in ("gopher", "http", "gopherp+", "spartan"):
            mix.append((v, b"/big%d.txt" % k, None))
    for i in range(1, 13):
        mix.append((("gopher", "http", "gemini", "spartan")[i % 4], b"/mail.mbox|/MBOX-MESSAGE/%d" % i, None))
    # selectors carrying a leading item-type component (rewritten by url.URLTypeRewriter before the look-up)
    for v in ("gopher", "gopherp+", "http", "gopher", "spartan"):
        mix.append((v, b"/0/small.txt", None))
        mix.append((v, b"/1/hot", None))
        mix.append((v, b"/9/large.bin", None))
    mix.append(("gopher", b"/0/arch.zip/m1.txt", None))
    mix.append(("gopher", b"/1/arch.zip/many", None))
    return mix


# what different HTTP clients put into their requests: the name they reached the server by (an alias, an address,
# another port, another spelling) and headers of their own; none of it is the server's configuration
CLIENT_HOSTS = [b"verif.example", b"intranet-alias", b"127.0.0.1:7070", b"VERIF.EXAMPLE.", b"www.other.example:8080", b"[::1]:70",
                b"evil.example"]
CLIENT_HEADERS = [b"", b"X-Forwarded-Host: proxy.example\r\nX-Forwarded-Proto: https\r\n", b"Referer: http://elsewhere.example/x\r\n",
                  b"Accept-Language: de\r\nConnection: close\r\n", b"Forwarded: for=192.0.2.1;host=fw.example\r\n"]
_client_no = itertools.count()


def as_some_client(req: bytes, view: str) -> bytes:
    if reqs.VIEWS[view][0] not in ("http", "wap"):
        return req
    k = next(_client_no)
    marker = b"Host: " + reqs.HOST.encode() + b"\r\n"
    if marker not in req:
        return req
    return req.replace(marker, b"Host: " + CLIENT_HOSTS[k % len(CLIENT_HOSTS)] + b"\r\n" + CLIENT_HEADERS[(k // 3) % len(CLIENT_HEADERS)], 1)


def fetch(sp: spdriver.ServerProcess, view: str, sel: bytes, q: typing.Optional[bytes], vary_client: bool = True):
    req, tls = reqs.render(view, sel, q)
    if vary_client:
        req = as_some_client(req, view)
    try:
        return sp.request(req, tls=tls, timeout=30), None
    except (socket.timeout, TimeoutError) as e:
        return None, "timeout:%s" % type(e).__name__
    except ssl.SSLError as e:
        return None, "tls:%s" % e.__class__.__name__
    except OSError as e:
        return None, "oserror:%s" % type(e).__name__


def bad_client(sp: spdriver.ServerProcess, kind: str) -> None:
    """Clients that misbehave on the shared port; nothing is expected back, they only have
    to be harmless for everybody else."""
    try:
        s = socket.create_connection(("127.0.0.1", sp.port), timeout=10)
    except OSError:
        return
    try:
        s.settimeout(10)
        if kind == "garbage-after-tls-byte":
            s.sendall(b"\x16\x03\x01\x00\x05hello, not a handshake")
            try:
                s.recv(100)
            except OSError:
                pass
        elif kind == "tls-client-rejecting-certificate":
            ctx = ssl.create_default_context()      # verifies: the self-signed certificate is refused
            try:
                ctx.wrap_socket(s, server_hostname="localhost").close()
            except (ssl.SSLError, OSError):
                pass
        elif kind == "connect-and-close":
            pass
        elif kind == "half-request-then-reset":
            s.sendall(b"/hot")
            s.setsockopt(socket.SOL_SOCKET, socket.SO_LINGER, __import__("struct").pack("ii", 1, 0))
        elif kind == "tls-hello-then-close":
            s.sendall(b"\x16\x03\x01\x02\x00\x01\x00\x01\xfc\x03\x03")
    finally:
        try:
            s.close()
        except OSError:
            pass


BAD_KINDS = ["garbage-after-tls-byte", "tls-client-rejecting-certificate", "connect-and-close", "half-request-then-reset",
             "tls-hello-then-close"]


def silent_client_isolation(chk: Check, sp: spdriver.ServerProcess, servertype: str, rd: int) -> bool:
    """Clients that connect and then say nothing (or stop in the middle of a TLS handshake) stay connected
    *until the probes below have been answered*: the verdict is causal, not a deadline -- a probe that is only
    answered after the silent clients were disconnected was waiting for them."""
    silent = []
    try:
        for first in (b"", b"\x16", b"\x16\x03\x01\x02\x00\x01\x00", b"/hot"):
            s = socket.create_connection(("127.0.0.1", sp.port), timeout=10)
            if first:
                s.sendall(first)
            silent.append(s)
        # ... and clients that have read their complete response over TLS and simply keep the connection open
        # (more of them than a forking server allows workers)
        lingering = 0
        ctx = ssl.SSLContext(ssl.PROTOCOL_TLS_CLIENT)
        ctx.check_hostname = False
        ctx.verify_mode = ssl.CERT_NONE
        for _ in range(44):
            try:
                raw = socket.create_connection(("127.0.0.1", sp.port), timeout=3)
                t = ctx.wrap_socket(raw, server_hostname="localhost")
                t.sendall(b"/small.txt\r\n")
                got = b""
                while len(got) < 6:
                    b = t.recv(6 - len(got))
                    if not b:
                        break
                    got += b
                silent.append(t)
                lingering += 1
            except (OSError, ssl.SSLError):
                break       # nobody answers any more: that is for the probes below to establish
        chk.count("clients_lingering_after_their_response", lingering)
        time.sleep(0.2)
        results = {}

        def probe(name, view):
            results[name] = fetch_t(sp, view, b"/small.txt", 25)

        ths = [threading.Thread(target=probe, args=(n, v), daemon=True) for n, v in (("plain", "gopher"), ("tls", "gophers"), ("http", "http"))]
        for t in ths:
            t.start()
        for t in ths:
            t.join(40)
        chk.count("probes_behind_silent_clients", len(ths))
        blocked = [n for n in ("plain", "tls", "http") if results.get(n, (None, "no result"))[1] is not None]
    finally:
        for s in silent:
            try:
                s.close()
            except OSError:
                pass
    if not blocked:
        return True
    # were they waiting for the silent clients?  Those are gone now: ask again.
    after = {n: fetch_t(sp, v, b"/small.txt", 25) for n, v in (("plain", "gopher"), ("tls", "gophers"), ("http", "http")) if n in blocked}
    if all(err is None for _, err in after.values()):
        chk.witness("C14/%s:silent-client-blocks-other-clients" % servertype,
                    {"round": rd, "unanswered_while_silent_clients_were_connected": blocked,
                     "answered_once_they_were_gone": sorted(after), "server_stderr": sp.stderr_text()[-400:]})
        return False
    chk.note_inconclusive("round %d: probes unanswered even without silent clients: %r" % (rd, {n: e for n, (_, e) in after.items()}))
    return True


def fetch_t(sp: spdriver.ServerProcess, view: str, sel: bytes, timeout: float):
    req, tls = reqs.render(view, sel, None)
    try:
        return sp.request(req, tls=tls, timeout=timeout), None
    except Exception as e:  # noqa
        return None, "%s: %s" % (type(e).__name__, e)


def children_states(pid: int) -> typing.List[typing.Tuple[int, str]]:
    out = []
    for n in os.listdir("/proc"):
        if not n.isdigit():
            continue
        try:
            with open("/proc/%s/stat" % n) as fp:
                s = fp.read()
            rest = s[s.rindex(")") + 2:].split()
            if int(rest[1]) == pid:
                out.append((int(n), rest[0]))
        except (OSError, ValueError):
            pass
    return out


def nfds(pid: int) -> int:
    try:
        return len(os.listdir("/proc/%d/fd" % pid))
    except OSError:
        return -1


def run_round(chk: Check, sc: Scratch, rd: int, servertype: str, nreq: int, yield_spec: typing.Optional[str],
              reference: typing.Dict[tuple, bytes], src_root: str) -> None:
    rng = chk.subrng("round", rd)
    root = os.path.join(sc.path, "root-%d" % rd)
    shutil.copytree(src_root, root, symlinks=True)
    env = {"VF_YIELD": yield_spec} if yield_spec else {}
    alog = os.path.join(sc.path, "audit-%d.log" % rd)
    env["VF_AUDIT_LOG"] = alog
    overrides = {("handlers.HandlerMultiplexer", "handlers"): driver.HANDLERS_FULL_REWRITE,
                 ("handlers.ZIP.ZIPHandler", "enabled"): "true",
                 ("handlers.file.CompressedFileHandler", "decompressors"): driver.decompressors_option(),
                 ("handlers.dir.DirHandler", "cachetime"): "1000"}
    start_dir = None
    if (rd // 2) % 2 == 0:
        # the document root given relatively to the directory the server is started from (no chroot): every look-up
        # of every worker depends on the process's working directory staying what it is
        overrides[("pygopherd", "root")] = os.path.basename(root)
        start_dir = os.path.dirname(root)
        chk.count("rounds_with_a_relative_root")
    sp = spdriver.ServerProcess(conf_overrides=overrides, root=root, servertype=servertype, tls=True, env=env, cwd=start_dir,
                                workdir=os.path.join(sc.path, "wd-%d" % rd), name="sut")
    sp.start()
    try:
        if not sp.wait_ready(30):
            chk.note_inconclusive("server under test did not become ready (round %d)" % rd)
            return
        pid = sp.pid
        fd0 = nfds(pid)
        mix = request_mix()
        jobs = [rng.choice(mix) for _ in range(nreq)]
        # the first requests after start-up all go to the same few selectors at once
        jobs[:INFLIGHT] = [rng.choice(mix[:10] + mix[10:20]) for _ in range(INFLIGHT)]
        stop = threading.Event()

        def disturber():
            # forces concurrent cache rewrites: cache files vanish or age while clients are busy
            r = random.Random(rd)
            while not stop.is_set():
                time.sleep(r.choice([0.005, 0.02, 0.05]))
                for dp, dn, fn in os.walk(root):
                    for f in fn:
                        if f.startswith(".cache.pygopherd") and r.random() < 0.5:
                            p = os.path.join(dp, f)
                            try:
                                if r.random() < 0.5:
                                    os.unlink(p)
                                else:
                                    st = os.stat(p)
                                    os.utime(p, (st.st_atime, st.st_mtime - 5000))
                            except OSError:
                                pass

        dt = threading.Thread(target=disturber, daemon=True)
        dt.start()
        t0 = time.monotonic()
        nbad = max(4, nreq // 12)
        bad_at = set(rng.sample(range(nreq), nbad))

        def run_job(ij):
            i, j = ij
            if i in bad_at:
                bad_client(sp, BAD_KINDS[i % len(BAD_KINDS)])
            return fetch(sp, *j)

        with ThreadPoolExecutor(max_workers=INFLIGHT) as ex:
            results = list(ex.map(run_job, enumerate(jobs)))
        chk.count("misbehaving_clients", nbad)
        stop.set()
        dt.join()
        dur = time.monotonic() - t0
        client_errors = 0
        for (view, sel, q), (data, err) in zip(jobs, results):
            chk.count("concurrent_requests")
            key = (view, sel, q)
            if err is not None:
                client_errors += 1
                chk.count("client_side_" + err.split(":")[0])
                if err.startswith("timeout"):
                    continue
                # a reset before any byte arrived can come from the kernel (listen backlog of 5 with
                # more connections in flight): ask again, alone; only a repeated failure is a verdict
                data, err2 = fetch(sp, view, sel, q)
                if err2 is not None:
                    data = b"<connection failed twice: %s, %s>" % (err.encode(), err2.encode())
                else:
                    chk.count("client_side_failures_answered_on_retry")
            want = reference[key]
            got = validate.normalize_ts(data)
            if got != want:
                n = next((i for i, (a, b) in enumerate(zip(got, want)) if a != b), min(len(got), len(want)))
                what = "empty-reply" if not data else ("connection-failed" if err else ("truncated" if want.startswith(got) else "different-bytes"))
                tag = "zip" if b".zip" in sel else ("dir" if sel in (b"/hot", b"/", b"/gm") else ("mbox" if b"mbox" in sel else "other"))
                chk.witness("C14/%s:%s:%s" % (servertype, tag, what),
                            {"round": rd, "view": view, "selector": sel, "yield": yield_spec, "got": got[max(0, n - 40):n + 120],
                             "want": want[max(0, n - 40):n + 120], "got_len": len(got), "want_len": len(want),
                             "server_stderr": sp.stderr_text()[-700:], "server_log_tail": sp.stdout_text()[-500:]})
                return
        # requests that timed out while the server was busy are no verdict.  Asked again now that every other client has
        # gone and the server has nothing else to do, the same request must be answered -- if a plain document still is
        timed_out = sorted({j for j, (d, e) in zip(jobs, results) if e is not None and e.startswith("timeout")}, key=repr)
        if timed_out:
            ctl, cerr = fetch(sp, "gopher", b"/small.txt", None)
            for j in timed_out[:6]:
                data, err = fetch(sp, *j, vary_client=False)
                chk.count("timed_out_requests_asked_again_on_the_idle_server")
                if err is not None and err.startswith("timeout") and ctl == b"small\n":
                    chk.witness("C14/%s:request-unanswered-on-an-idle-server" % servertype,
                                {"round": rd, "view": j[0], "selector": j[1], "waited_s": 30, "control_document_answered": True,
                                 "why": "no other client is connected; an earlier client's request left something behind",
                                 "server_stderr": sp.stderr_text()[-500:]})
                    return
                if err is None and validate.normalize_ts(data) == reference[j]:
                    client_errors -= sum(1 for jj, (d, e) in zip(jobs, results) if jj == j and e is not None and e.startswith("timeout"))
        if client_errors > nreq // 10:
            chk.note_inconclusive("round %d: %d of %d requests failed on the client side" % (rd, client_errors, nreq))
        # liveness, reaping, descriptors, stderr
        probe, perr = fetch(sp, "gopher", b"/small.txt", None)
        if probe != b"small\n":
            chk.witness("C14/%s:server-stopped-answering" % servertype, {"round": rd, "probe": probe, "error": perr,
                                                                        "stderr": sp.stderr_text()[-500:]})
            return
        if not silent_client_isolation(chk, sp, servertype, rd):
            return
        zombies = []
        for _ in range(20):
            # reaping happens from the accept loop's 0.5 s service interval; no probing here,
            # a probe would itself leave a fresh worker to be reaped
            time.sleep(0.3)
            zombies = [k for k in children_states(pid) if k[1] == "Z"]
            if not zombies:
                break
        if zombies:
            chk.witness("C14/%s:zombie-workers" % servertype, {"round": rd, "zombies": zombies[:5]})
            return
        leftover = []
        for _ in range(20):
            leftover = [m for m in spdriver.session_members(sp.sid) if m[0] != pid]
            if not leftover:
                break
            time.sleep(0.5)
        if leftover:
            chk.witness("C14/%s:workers-outlive-their-connection" % servertype, {"round": rd, "processes": leftover[:6]})
            return
        fd1 = nfds(pid)
        chk.count("descriptors_above_baseline_after_burst:%s" % servertype, max(0, fd1 - fd0))
        err = sp.stderr_text()
        # Tracebacks on stderr are not a verdict: handled errors go with an error reply (caught by the
        # comparison above), a failed TLS handshake of a misbehaving client is reported by the worker's
        # own handle_error, finalisers add 'Exception ignored in' notes.  Only an interpreter crash is.
        if "Fatal Python error" in err:
            chk.witness("C14/%s:interpreter-crash" % servertype, {"round": rd, "stderr": err[-900:]})
            return
        if err.strip():
            chk.count("rounds_with_stderr_output")
        # what did the monitors see?
        overlaps = cache_overlaps(alog)
        for k, v in overlaps.items():
            chk.count(k, v)
        chk.count("rounds_completed")
        chk.count("requests_per_second_x10", int(10 * nreq / max(dur, 0.01)))
        chk.case((servertype, bool(yield_spec), rd), {"round": rd, "servertype": servertype, "yield": yield_spec, "requests": nreq,
                                                      "seconds": round(dur, 2), "monitor": overlaps}, )
        chk.count("burst_ms:%s:%s" % (servertype[:4], "yield" if yield_spec else "plain"), int(dur * 1000))
    finally:
        sp.stop()
        sp.cleanup()
        shutil.rmtree(root, ignore_errors=True)
        try:
            os.unlink(alog)
        except OSError:
            pass


def cache_overlaps(alog: str) -> typing.Dict[str, int]:
    """From the injected audit log: how often a cache file was opened for reading while
    another worker had recently opened it for writing (same file, different worker,
    within 5 ms), and how many distinct workers touched cache files."""
    opens = []
    try:
        with open(alog, "rb") as fp:
            for ln in fp:
                p = ln.decode("utf-8", "replace").rstrip("\n").split(" ", 5)
                if len(p) == 6 and p[3] == "open" and ".cache.pygopherd" in p[5]:
                    opens.append((float(p[2]), p[0] + "/" + p[1], p[4], p[5]))
    except OSError:
        return {"audit_log_missing": 1}
    opens.sort()
    overlap = 0
    ww = 0
    lastw: typing.Dict[str, typing.Tuple[float, str]] = {}
    for ts, who, mode, path in opens:
        writing = any(c in mode for c in "wa+") or mode in ("n", "c")
        if path in lastw and lastw[path][1] != who and ts - lastw[path][0] < 0.005:
            if writing:
                ww += 1
            else:
                overlap += 1
        if writing:
            lastw[path] = (ts, who)
    return {"cache_file_opens": len(opens), "cache_reads_within_5ms_of_foreign_write": overlap,
            "cache_writes_within_5ms_of_foreign_write": ww, "workers_touching_caches": len({w for _, w, _, _ in opens})}


def first_request_bursts(chk: Check, sc: Scratch, src_root: str, nbursts: int) -> None:
    """'First requests after start-up': the lazily initialised module-level tables are in
    their start-up state (None) and several workers hit them at once.  In process (threads
    through the real process_request_thread), so that hundreds of start-ups can be tried."""
    import sys as _sys
    import io as _io
    root = os.path.join(sc.path, "root-first")
    shutil.copytree(src_root, root, symlinks=True)
    site = driver.Site(root, handlers=driver.HANDLERS_FULL_REWRITE, overrides={("handlers.dir.DirHandler", "cachetime"): "1000"})
    rng = chk.subrng("first")
    combos = [(v, sel) for v in ("gopher", "gopherp$", "http", "gemini", "wap", "gophers") for sel in (b"/hot", b"/", b"/arch.zip/sub")]
    ref = {}
    for v, sel in combos:
        driver.clean_server_files(root)
        driver.reset_lazies()
        req, tls = reqs.render(v, sel)
        ref[(v, sel)] = validate.normalize_ts(site.request(req, tls=tls).data)
    mon = getattr(_sys, "monitoring", None)
    yielding = False
    if mon is not None:
        try:
            mon.use_tool_id(mon.PROFILER_ID, "vf-yield-inproc")
            lock = threading.Lock()

            def on_line(code, lineno):
                fn = code.co_filename
                if "/pygopherd/handlers/" not in fn and not fn.endswith(("gopherentry.py", "fileext.py")):
                    return mon.DISABLE
                with lock:
                    r = rng.random()
                if r < 0.03:
                    time.sleep(0.0005)

            mon.register_callback(mon.PROFILER_ID, mon.events.LINE, on_line)
            yielding = True
        except ValueError:
            pass
    old_err = _sys.stderr
    _sys.stderr = _io.StringIO()
    _sys.setswitchinterval(1e-5)
    try:
        for b in range(nbursts):
            driver.clean_server_files(root)
            driver.reset_lazies()
            __import__("re").purge()     # a fresh process has no compiled-pattern cache either
            if yielding:
                mon.set_events(mon.PROFILER_ID, mon.events.LINE if b % 30 == 29 else 0)
            picks = [rng.choice(combos) for _ in range(8)]
            site._escaped.clear()
            replies = driver.concurrent_requests(site, [reqs.render(v, sel) for v, sel in picks], nthreads=8, aligned_start=True)
            for (v, sel), rep in zip(picks, replies):
                chk.count("first_request_burst_requests")
                got = validate.normalize_ts(rep)
                if got != ref[(v, sel)] or site._escaped:
                    n = next((i for i, (x, y) in enumerate(zip(got, ref[(v, sel)])) if x != y), 0)
                    chk.witness("C14/first-requests-after-startup:%s" % ("exception" if site._escaped else ("empty-reply" if not rep else "different-bytes")),
                                {"burst": b, "view": v, "selector": sel, "got": got[max(0, n - 30):n + 100], "want": ref[(v, sel)][max(0, n - 30):n + 100],
                                 "escaped": site._escaped[:1], "stderr": _sys.stderr.getvalue()[-500:]})
                    return
        chk.case(("first-request-bursts", nbursts), {"bursts": nbursts, "threads": 8, "yield_injection_every_30th_burst": yielding})
    finally:
        if yielding:
            mon.set_events(mon.PROFILER_ID, 0)
            mon.free_tool_id(mon.PROFILER_ID)
        _sys.setswitchinterval(0.005)
        _sys.stderr = old_err
        site.close()
        shutil.rmtree(root, ignore_errors=True)


def take_reference(chk: Check, sc: Scratch, src_root: str) -> typing.Optional[typing.Dict[tuple, bytes]]:
    root = os.path.join(sc.path, "root-ref")
    shutil.copytree(src_root, root, symlinks=True)
    overrides = {("handlers.HandlerMultiplexer", "handlers"): driver.HANDLERS_FULL_REWRITE,
                 ("handlers.ZIP.ZIPHandler", "enabled"): "true",
                 ("handlers.file.CompressedFileHandler", "decompressors"): driver.decompressors_option(),
                 ("handlers.dir.DirHandler", "cachetime"): "1000"}
    sp = spdriver.ServerProcess(conf_overrides=overrides, root=root, servertype="ThreadingTCPServer", tls=True,
                                workdir=os.path.join(sc.path, "wd-ref"), name="ref")
    sp.start()
    ref = {}
    try:
        if not sp.wait_ready(30):
            chk.note_inconclusive("reference server did not become ready")
            return None
        for pass_ in range(2):       # second pass: answers served from the caches must be the same
            for view, sel, q in request_mix():
                data, err = fetch(sp, view, sel, q, vary_client=bool(pass_))
                if err:
                    chk.note_inconclusive("reference request failed: %s %r %s" % (view, sel, err))
                    return None
                n = validate.normalize_ts(data)
                if (view, sel, q) in ref and ref[(view, sel, q)] != n:
                    chk.witness("C14/sequential-reference-not-stable", {"view": view, "selector": sel, "first": ref[(view, sel, q)][:200],
                                                                        "second": n[:200]})
                    return None
                ref[(view, sel, q)] = n
        if sp.stderr_text().strip():
            chk.witness("C14/reference-server-stderr", {"stderr": sp.stderr_text()[-600:]})
            return None
    finally:
        sp.stop()
        sp.cleanup()
        shutil.rmtree(root, ignore_errors=True)
    return ref


def main() -> int:
    chk = Check("C14", "exploration")
    quick = chk.tier == "quick"
    with Scratch("c14") as sc:
        src = sc.sub("src")
        build_tree(sc).materialize(src)
        t0 = time.monotonic()
        first_request_bursts(chk, sc, src, 150 if quick else 3000)
        chk.count("phase_ms:first_request_bursts", int(1000 * (time.monotonic() - t0)))
        t0 = time.monotonic()
        ref = take_reference(chk, sc, src)
        chk.count("phase_ms:sequential_reference", int(1000 * (time.monotonic() - t0)))
        if ref is not None:
            rounds = []
            n = 6 if quick else 40
            for rd in range(n):
                st = "ThreadingTCPServer" if rd % 2 == 0 else "ForkingTCPServer"
                ys = None if rd % 4 < 2 else "%s,%d" % (("0.02", "0.05", "0.1")[rd % 3], chk.seed * 100 + rd)
                rounds.append((rd, st, ys))
            nreq = 200 if quick else 600

            def go(args):
                rd, st, ys = args
                # LINE-event yield injection costs ~15x in the threading server (GIL hand-offs)
                n = nreq // 4 if (ys and st.startswith("Thread")) else nreq
                run_round(chk, sc, rd, st, n, ys, ref, src)

            # rounds are independent server processes; run a few side by side
            with ThreadPoolExecutor(max_workers=3 if quick else 5) as ex:
                list(ex.map(go, rounds))
    if not chk.witnesses and chk.counters.get("rounds_completed", 0) < 4:
        chk.note_inconclusive("fewer than 4 rounds completed")
    return chk.finish(
        rule="case = one round: a fresh real server process (threading / forking, TLS on, with or without seeded "
             "yield injection at statement boundaries of pygopherd/shelve/dbm code) serves 200 (quick) / 600 mixed "
             "requests, 16 in flight, drawn from ~75 (view, selector) pairs, while cache files are removed and aged; "
             "every reply is compared byte-for-byte (timestamps normalised) with the reply of a separate sequential "
             "server process on a copy of the tree; then liveness probe, no zombie children, descriptor count back to "
             "baseline, empty stderr. Counters report what the in-server audit log saw: cache-file opens, reads and "
             "writes within 5 ms of another worker's write",
        assumptions=["client-side timeouts are inconclusive, never violations", "interleavings are sampled, not enumerated"])


if __name__ == "__main__":
    common.main_wrapper(main)
