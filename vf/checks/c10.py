"""C10 -- the directory cache is transparent and never older than its lifetime.

Histories of directory mutations, clock advances and listing requests are run against
the real handlers; an explicit cache model says, for every request, whether it must be
a hit (reply = rendering recorded when the entry was written, per protocol) or a miss
(reply = uncached rendering of the directory as it is now).  Clock advances are
produced without patching time: the freshness test reads time.time() and the cache
file's mtime, so advancing the clock by D equals moving that mtime back by D."""
from __future__ import annotations

import os
import shutil
import typing

from vf import common, driver, reqs, validate
from vf.common import Check, Scratch
from vf.trees import Tree, FIXED_MTIME

LIFETIME = 1000
# clock advances: around the lifetime, and whole periods (an hour, a day, days, a week) plus a little -- an age is a
# duration, not a time of day
AGES = [400, 990, 1010, 3000, 50, 400, 86400 + 30, 3 * 86400 + 175, 604800 + 5, 3600, 86400 - 20]
VIEWS = ["gopher", "gophers", "gopherp+", "gopherp$", "http", "https", "wap", "gemini", "spartan"]
CACHEFILE = ".cache.pygopherd.dir"


class DirModel:
    def __init__(self):
        self.snapshot: typing.Optional[typing.Dict[str, bytes]] = None
        self.age = 0          # seconds the entry has been aged by the harness
        self.written_by = None
        self.renamed = False  # the directory was renamed after the entry was written (the entry holds the old selectors)


class World:
    def __init__(self, chk: Check, sc: Scratch, idx: int, handlers, lifetime: int):
        self.chk = chk
        self.rng = chk.subrng("hist", idx)
        self.root = sc.sub("root%d" % idx)
        self.twin = sc.sub("twin%d" % idx)
        self.dirs = [b"", b"one", b"one/two"][:self.rng.randrange(1, 4)]
        t = Tree()
        for d in self.dirs:
            pre = d + b"/" if d else b""
            for k in range(self.rng.randrange(1, 5)):
                t.file(pre + b"file%d.txt" % k, "content %d\n" % k)
            t.file(pre + b"page.html", "<html><title>A page</title></html>")
            t.file(pre + b"empty.txt", b"")                 # size 0: set but falsy
            t.dir(pre + b"subdir%d" % len(d))
            t.file(pre + b"subdir%d/x.txt" % len(d), "x\n")
            t.file(pre + b".abstract", "Header of %s" % (d.decode() or "root"))
        t.materialize(self.root)
        self.lifetime = lifetime
        # what the site says about abstracts (whether and where protocols show them): part of how a protocol renders
        # an entry, no part of the entry that is cached
        self.abstracts = [("on", "always"), ("on", "always"), ("off", "never"), ("on", "unsupported"), ("off", "always"),
                          ("on", "never")][idx % 6]
        chk.count("histories_with_abstract_headers=%s,entries=%s" % self.abstracts)
        self.site = None
        self.handlers = handlers
        self.site = driver.Site(self.root, handlers=handlers, overrides=self.overrides(lifetime))
        self.twinsite = driver.Site(self.twin, handlers=handlers, overrides=self.overrides(0))
        self.model = {d: DirModel() for d in self.dirs}
        self.counter = 0
        self.trace: typing.List[str] = []

    def overrides(self, lifetime: int) -> dict:
        return {("handlers.dir.DirHandler", "cachetime"): str(lifetime), ("pygopherd", "abstract_headers"): self.abstracts[0],
                ("pygopherd", "abstract_entries"): self.abstracts[1]}

    def close(self):
        self.site.close()
        self.twinsite.close()

    # -- the uncached reference: a copy of the tree served with lifetime 0 -------------------
    def render_current(self, d: bytes) -> typing.Dict[str, bytes]:
        shutil.rmtree(self.twin, ignore_errors=True)
        shutil.copytree(self.root, self.twin, ignore=shutil.ignore_patterns(".cache.pygopherd*"), symlinks=True)
        self.twinsite.activate()
        out = {}
        sel = b"/" + d if d else b"/"
        for view in VIEWS:
            req, tls = reqs.render(view, sel)
            r = self.twinsite.request(req, tls=tls)
            out[view] = validate.normalize_ts(r.data)
            driver.clean_server_files(self.twin)
        self.site.activate()
        return out

    def cachepath(self, d: bytes) -> bytes:
        return os.path.join(os.fsencode(self.root), d, CACHEFILE.encode())

    # -- operations ----------------------------------------------------------------------------
    def op_mutate(self) -> None:
        rng = self.rng
        d = rng.choice(self.dirs)
        pre = os.path.join(os.fsencode(self.root), d)
        names = [n for n in os.listdir(pre) if not n.startswith(b".") and os.path.isfile(os.path.join(pre, n))]
        self.counter += 1
        kind = rng.choice(["create", "delete", "rename", "cap", "names", "sidecar", "edit"])
        if kind == "create" or not names:
            p = os.path.join(pre, b"new%d.txt" % self.counter)
            with open(p, "wb") as fp:
                fp.write(b"new %d\n" % self.counter)
        elif kind == "delete":
            os.unlink(os.path.join(pre, rng.choice(names)))
        elif kind == "rename":
            n = rng.choice(names)
            os.rename(os.path.join(pre, n), os.path.join(pre, b"moved%d" % self.counter + os.path.splitext(n)[1]))
        elif kind == "cap":
            os.makedirs(os.path.join(pre, b".cap"), exist_ok=True)
            with open(os.path.join(pre, b".cap", rng.choice(names)), "wb") as fp:
                fp.write(b"Name=Capped %d\nNumb=%d\n" % (self.counter, rng.randrange(1, 9)))
        elif kind == "names":
            with open(os.path.join(pre, b".names"), "wb") as fp:
                fp.write(b"Path=./" + rng.choice(names) + b"\nName=Named %d\n" % self.counter)
        elif kind == "sidecar":
            with open(os.path.join(pre, rng.choice(names) + b".abstract"), "wb") as fp:
                fp.write(b"Abstract number %d\n" % self.counter)
        else:
            with open(os.path.join(pre, rng.choice(names)), "ab") as fp:
                fp.write(b"x" * 2000)
        self.trace.append("%s in /%s" % (kind, d.decode()))

    def op_rename_dir(self) -> None:
        """The directory itself is renamed (its cache file travels with it).  The entry still says what it said, under
        the old selectors; what the model keeps checking is its age: a hit does not refresh it, an expired one is not used."""
        if len(self.dirs) < 2:
            return
        d = self.dirs[-1]
        self.counter += 1
        new = (d.rsplit(b"/", 1)[0] + b"/" if b"/" in d else b"") + b"ren%d" % self.counter
        os.rename(os.path.join(os.fsencode(self.root), d), os.path.join(os.fsencode(self.root), new))
        self.dirs[-1] = new
        self.model[new] = self.model.pop(d)
        if self.model[new].snapshot is not None:
            self.model[new].renamed = True
        self.trace.append("rename directory /%s -> /%s" % (d.decode(), new.decode()))
        self.chk.count("directory_renames")

    def op_reconfigure(self) -> None:
        """The server is restarted with another cache lifetime over the same tree (cache files and all): from now on
        the *configured* lifetime decides, whatever it was when an entry was written."""
        ages = [m.age for m in self.model.values() if m.snapshot is not None]
        cands = [x for x in (0, 300, 1000, 2500, 6000) if x != self.lifetime and all(abs(a - x) >= 10 for a in ages)]
        if not cands:
            return
        self.lifetime = self.rng.choice(cands)
        self.site.close()
        self.site = driver.Site(self.root, handlers=self.handlers, overrides=self.overrides(self.lifetime))
        self.trace.append("restart with lifetime %d" % self.lifetime)
        self.chk.count("restarts_with_another_lifetime")

    def op_concurrent_rebuild(self) -> bool:
        """Several requests arrive together for a directory whose entry has expired, while reading the directory is
        slow (os.listdir takes 30 ms for it): every one of them shows the directory as it is now."""
        import time
        chk = self.chk
        cands = [d for d in self.dirs if self.model[d].snapshot is not None and os.path.exists(self.cachepath(d))
                 and (self.lifetime == 0 or self.model[d].age >= self.lifetime)]
        if not cands:
            return True
        d = self.rng.choice(cands)
        m = self.model[d]
        sel = b"/" + d if d else b"/"
        view = self.rng.choice(["gopher", "http", "gopherp+"])
        current = self.render_current(d)
        target = os.path.join(os.fsencode(self.root), d).rstrip(b"/")
        real_listdir = os.listdir

        def slow(path="."):
            if os.fsencode(path).rstrip(b"/") == target:
                time.sleep(0.03)
            return real_listdir(path)

        req, tls = reqs.render(view, sel)
        os.listdir = slow
        try:
            replies = driver.concurrent_requests(self.site, [(req, tls)] * 4, nthreads=4)
        finally:
            os.listdir = real_listdir
        self.trace.append("4 concurrent %s /%s on an expired entry" % (view, d.decode()))
        chk.count("concurrent_rebuilds")
        for rep in replies:
            got = validate.normalize_ts(rep)
            if got != current[view]:
                stale = got == m.snapshot[view] and not m.renamed
                chk.witness("C10/%s" % ("expired-entry-served-to-a-request-arriving-during-the-rebuild" if stale
                                        else "concurrent-rebuild-differs-from-current-directory"),
                            {"lifetime": self.lifetime, "view": view, "dir": sel, "age": m.age, "history": self.trace[-12:],
                             "got": got[:300], "current": current[view][:300]})
                return False
        if os.path.exists(self.cachepath(d)):
            m.snapshot, m.age, m.written_by, m.renamed = current, 0, view, False
        return True

    def op_age(self) -> None:
        """Advance the clock by delta: every timestamp under the root moves back by delta
        (the cache files' and the directories' alike), which is what the passage of time
        looks like to code that compares time.time() with mtimes."""
        delta = self.rng.choice(AGES)
        for d in self.dirs:
            m = self.model[d]
            if m.snapshot is not None and abs((m.age + delta) - self.lifetime) < 10:
                return  # stay away from the boundary: the code truncates mtime to whole seconds
        for dp, dn, fn in os.walk(os.fsencode(self.root)):
            for f in fn + dn + [b"."]:
                p = os.path.join(dp, f)
                try:
                    st = os.lstat(p)
                    os.utime(p, ns=(st.st_atime_ns - delta * 10**9, st.st_mtime_ns - delta * 10**9), follow_symlinks=False)
                except OSError:
                    pass
        for d in self.dirs:
            m = self.model[d]
            if m.snapshot is not None and os.path.exists(self.cachepath(d)):
                m.age += delta
        self.trace.append("clock += %d" % delta)

    def op_head(self) -> bool:
        """HTTP HEAD of a directory: prepares the listing but renders nothing, so it neither uses up
        nor rewrites nor refreshes the cache entry -- a pure observation for the model."""
        chk = self.chk
        d = self.rng.choice(self.dirs)
        sel = b"/" + d if d else b"/"
        cp = self.cachepath(d)
        before = os.stat(cp) if os.path.exists(cp) else None
        req, tls = reqs.render("httphead", sel)
        r = self.site.request(req, tls=tls)
        self.trace.append("HEAD /%s" % d.decode())
        after = os.stat(cp) if os.path.exists(cp) else None
        m = self.model[d]
        sample = {"dir": sel, "history": self.trace[-12:], "reply": r.data[:200], "age": m.age}
        v = validate.validate(r, req, head=True)
        if r.escaped or not v.ok or v.klass != "headonly":
            chk.witness("C10/head-request-failed", sample)
            return False
        if before is not None and after is not None and m.snapshot is not None and m.age >= self.lifetime > 0 \
                and after.st_mtime_ns != before.st_mtime_ns and after.st_size == before.st_size:
            chk.witness("C10/expired-entry-refreshed-without-rewrite", dict(sample, before=before.st_mtime, after=after.st_mtime))
            return False
        if after is not None and (before is None or after.st_mtime_ns != before.st_mtime_ns) and self.lifetime > 0:
            # the implementation chose to (re)write the cache on a HEAD: follow it in the model
            m.snapshot, m.age, m.written_by, m.renamed = self.render_current(d), 0, "httphead", False
        chk.count("head_requests")
        return True

    def op_request_while_rebuild_fails(self) -> bool:
        """A request that must rebuild the listing (entry expired, or lifetime 0) while the directory cannot be read
        (os.listdir fails with EIO for this one request): whatever the reply, it is not the expired entry."""
        import errno
        chk = self.chk
        cands = [d for d in self.dirs if self.model[d].snapshot is not None and os.path.exists(self.cachepath(d))
                 and (self.lifetime == 0 or self.model[d].age >= self.lifetime)]
        if not cands:
            return True
        d = self.rng.choice(cands)
        m = self.model[d]
        view = self.rng.choice(VIEWS)
        sel = b"/" + d if d else b"/"
        current = self.render_current(d)
        target = os.path.join(os.fsencode(self.root), d).rstrip(b"/")
        real_listdir = os.listdir
        hits = []

        def failing(path="."):
            p = os.fsencode(path).rstrip(b"/")
            if p == target:
                hits.append(1)
                raise OSError(errno.EIO, os.strerror(errno.EIO), os.fsdecode(p))
            return real_listdir(path)

        cp = self.cachepath(d)
        before = os.stat(cp)
        os.listdir = failing
        try:
            req, tls = reqs.render(view, sel)
            r = self.site.request(req, tls=tls)
        finally:
            os.listdir = real_listdir
        got = validate.normalize_ts(r.data)
        self.trace.append("request %s /%s while the directory cannot be read" % (view, d.decode()))
        chk.count("requests_while_rebuild_fails")
        if not hits:
            chk.count("rebuild_fault_not_reached")
            if got == m.snapshot[view] and got != current[view]:
                chk.witness("C10/stale-entry-served", {"lifetime": self.lifetime, "view": view, "dir": sel, "age": m.age,
                                                       "history": self.trace[-12:], "got": got[:300], "current": current[view][:300]})
                return False
        elif got == m.snapshot[view] and got != current[view]:
            chk.witness("C10/expired-entry-served-when-the-rebuild-fails",
                        {"lifetime": self.lifetime, "view": view, "dir": sel, "age": m.age, "history": self.trace[-12:],
                         "got": got[:300], "current": current[view][:300], "log": r.log[:3]})
            return False
        after = os.stat(cp) if os.path.exists(cp) else None
        if after is None:
            m.snapshot, m.age = None, 0
        elif (after.st_mtime_ns, after.st_size) != (before.st_mtime_ns, before.st_size):
            m.snapshot, m.age, m.written_by = current, 0, view
        return True

    # other spellings of a directory's selector (runs of separators and dots behind it): answered as the directory or
    # refused -- and a refused request leaves the cache as it was
    ODD_SUFFIXES = [b"/", b"/.", b"//", b"/./", b"/./.", b"/.//", b"//.", b"/././", b"/. ", b"/.\\"]

    def op_request(self, odd: bool = False) -> bool:
        chk = self.chk
        d = self.rng.choice(self.dirs)
        view = self.rng.choice(VIEWS)
        m = self.model[d]
        cp = self.cachepath(d)
        sel = b"/" + d if d else b"/"
        suffix = b""
        if odd:
            suffix = self.rng.choice(self.ODD_SUFFIXES)
            sel = sel.rstrip(b"/") + suffix
            chk.count("requests_with_odd_directory_spelling")
        cache_before = open(cp, "rb").read() if os.path.exists(cp) else None
        expect_hit = self.lifetime > 0 and m.snapshot is not None and m.age < self.lifetime
        before = os.stat(cp) if os.path.exists(cp) else None
        if before is not None and m.snapshot is None and self.lifetime > 0:
            chk.note_inconclusive("cache file present without a model entry")
        current = None
        if not expect_hit:
            current = self.render_current(d)   # before the request: it will rewrite the cache
        req, tls = reqs.render(view, sel)
        r = self.site.request(req, tls=tls)
        got = validate.normalize_ts(r.data)
        self.trace.append("request %s /%s -> expect %s" % (view, d.decode(), "hit" if expect_hit else "miss"))
        sample = {"lifetime": self.lifetime, "view": view, "dir": sel, "expected": "hit" if expect_hit else "miss",
                  "age": m.age, "written_by": m.written_by, "history": self.trace[-12:], "got": got[:400], "log": r.log[:2],
                  "escaped": r.escaped[:1]}
        if r.escaped or [e for e in r.exceptions() if not (odd and e == "FileNotFound")]:
            chk.witness("C10/request-failed", sample)
            return False
        if odd and validate.validate(r, req).klass == "error":
            cache_after = open(cp, "rb").read() if os.path.exists(cp) else None
            if cache_after != cache_before:
                chk.witness("C10/refused-request-rewrote-the-cache", dict(sample, cache_was=None if cache_before is None else len(cache_before),
                                                                          cache_is=None if cache_after is None else len(cache_after)))
                return False
            chk.count("odd_spellings_refused_cache_untouched")
            return True
        if expect_hit:
            if not m.renamed and got != m.snapshot[view]:
                fresh = self.render_current(d)
                which = "serves-current-directory" if got == fresh[view] else "differs-from-recorded-listing"
                chk.witness("C10/hit-%s:%s" % (which, "same-protocol" if m.written_by == view else "cross-protocol"),
                            dict(sample, recorded=m.snapshot[view][:400]))
                return False
            after = os.stat(cp)
            if (after.st_mtime_ns, after.st_size) != (before.st_mtime_ns, before.st_size):
                chk.witness("C10/hit-refreshes-cache-file", dict(sample, before=before.st_mtime, after=after.st_mtime))
                return False
            chk.count("hits_verified")
            chk.case(("hit", view, m.written_by, m.age // 100, self.lifetime), sample if chk.evaluations % 97 == 0 else None)
        else:
            if got != current[view]:
                stale = m.snapshot is not None and got == m.snapshot[view]
                chk.witness("C10/%s" % ("stale-entry-served" if stale else "miss-differs-from-current-directory"),
                            dict(sample, current=current[view][:400]))
                return False
            if self.lifetime > 0 and not os.path.exists(cp):
                chk.note_inconclusive("no cache file after a miss")
            if os.path.exists(cp):
                # (also with lifetime 0 the file is rewritten: it matters once the lifetime is configured differently)
                m.snapshot, m.age, m.written_by, m.renamed = current, 0, view, False
            chk.count("misses_verified")
            chk.case(("miss", view, m.age // 100, self.lifetime), sample if chk.evaluations % 97 == 0 else None)
        return True


# POSIX TZ strings (no zoneinfo files needed): the age of an entry is a difference of two instants and
# cannot depend on the zone the server runs in
ZONES = ["UTC0", "JST-9", "CET-1CEST,M3.5.0,M10.5.0/3", "EST5EDT,M3.2.0,M11.1.0", "NST3:30", "<+14>-14", "<-11>11"]


def set_zone(tz: typing.Optional[str]) -> None:
    import time
    if tz is None:
        os.environ.pop("TZ", None)
    else:
        os.environ["TZ"] = tz
    time.tzset()


def archive_member_named_like_cache(chk: Check, sc: Scratch) -> None:
    """An archive that holds a member called like the directory cache file (what `zip -r` of a served
    directory produces): it is a member like any other, never the cache of the archive's listing."""
    import datetime
    import io
    import zipfile
    work = sc.sub("zc-work")
    Tree().file("docs/a.txt", "a\n").file("docs/old.txt", "old\n").materialize(work)
    s0 = driver.Site(work, handlers=driver.HANDLERS_FULL, overrides={("handlers.dir.DirHandler", "cachetime"): str(LIFETIME)})
    try:
        s0.request(reqs.render("gopher", b"/docs")[0])
        cp = os.path.join(work, "docs", CACHEFILE)
        if not os.path.exists(cp):
            chk.note_inconclusive("no cache file to pack into the archive")
            return
        stale = open(cp, "rb").read()
    finally:
        s0.close()
    now = datetime.datetime.now()
    for k, (lifetime, shift) in enumerate([(LIFETIME, 0), (LIFETIME, -600), (0, 9 * 3600), (LIFETIME, 14 * 3600), (0, 0)]):
        stamp = (now + datetime.timedelta(seconds=shift)).timetuple()[:6]
        replies = {}
        for which in ("with-lookalike", "without"):
            bio = io.BytesIO()
            with zipfile.ZipFile(bio, "w") as z:
                for name, data in (("a.txt", b"a\n"), ("new.txt", b"new\n"), ("sub/b.txt", b"b\n")):
                    z.writestr(zipfile.ZipInfo(name, stamp), data)
                if which == "with-lookalike":
                    z.writestr(zipfile.ZipInfo(CACHEFILE, stamp), stale)
                    z.writestr(zipfile.ZipInfo("sub/" + CACHEFILE, stamp), stale)
            root = sc.sub("zc-%d-%s" % (k, which))
            Tree().file("docs.zip", bio.getvalue()).materialize(root)
            site = driver.Site(root, handlers=driver.HANDLERS_FULL, overrides={("handlers.dir.DirHandler", "cachetime"): str(lifetime)})
            try:
                out = []
                for sel in (b"/docs.zip", b"/docs.zip/sub"):
                    for view in ("gopher", "http", "gopherp$", "gopher"):
                        req, tls = reqs.render(view, sel)
                        out.append((view, sel, validate.normalize_ts(site.request(req, tls=tls).data)))
                replies[which] = out
            finally:
                site.close()
                shutil.rmtree(root, ignore_errors=True)
        for (view, sel, a), (_, _, b) in zip(replies["with-lookalike"], replies["without"]):
            chk.count("archive_listings_compared")
            if a != b:
                chk.witness("C10/archive-member-used-as-directory-cache",
                            {"lifetime": lifetime, "member_stamp_shift_seconds": shift, "view": view, "selector": sel,
                             "with_lookalike": a[:300], "without": b[:300]})
                return
        chk.case(("archive-lookalike", lifetime, shift), {"lifetime": lifetime, "shift": shift})
    shutil.rmtree(work, ignore_errors=True)


def run_history(chk: Check, sc: Scratch, idx: int) -> None:
    hl_name, hl = [("umn", None), ("plain", driver.HANDLERS_PLAINDIR)][idx % 2]
    lifetime = 0 if idx % 5 == 4 else LIFETIME
    zone = ZONES[idx % len(ZONES)]
    set_zone(zone)
    chk.count("histories_in_zone:" + zone.split(",")[0])
    w = World(chk, sc, idx, hl, lifetime)
    w.trace.append("TZ=" + zone)
    try:
        n = w.rng.randrange(12, 41)
        for _ in range(n):
            r = w.rng.random()
            if r < 0.08:
                if not w.op_head():
                    return
            elif r < 0.14:
                if not w.op_request_while_rebuild_fails():
                    return
            elif r < 0.18:
                if not w.op_concurrent_rebuild():
                    return
            elif r < 0.21:
                w.op_reconfigure()
            elif r < 0.45:
                if not w.op_request():
                    return
            elif r < 0.5:
                if not w.op_request(odd=True):
                    return
            elif r < 0.76:
                w.op_mutate()
            elif r < 0.8:
                w.op_rename_dir()
            else:
                w.op_age()
        chk.count("histories_completed")
    finally:
        set_zone(None)
        w.close()
        shutil.rmtree(w.root, ignore_errors=True)
        shutil.rmtree(w.twin, ignore_errors=True)


def main() -> int:
    chk = Check("C10", "exploration")
    quick = chk.tier == "quick"
    if not quick and chk.args.shard is None:
        common.run_shards(chk, "vf.checks.c10", 16, timeout=2400)
    else:
        with Scratch("c10") as sc:
            for i in range(80 if quick else 400):
                run_history(chk, sc, i)
            archive_member_named_like_cache(chk, sc)
    if chk.counters.get("hits_verified", 0) < 50 and not chk.witnesses:
        chk.note_inconclusive("fewer than 50 cache hits were observed")
    return chk.finish(
        rule="case = one listing request inside a history of 12-40 operations (create/delete/rename/edit .cap/.names/"
             "sidecar, age the cache entry by 50/400/990/1010/3000 s, request through one of 9 views) on 1-3 directories; "
             "the clock is advanced by moving every timestamp under the root back; the cache model decides hit/miss; hit = bytes recorded (per protocol, from a lifetime-0 twin copy) when the "
             "entry was written and unchanged cache file mtime; miss = uncached rendering of the current directory. "
             "distinct = (hit/miss, view, view that wrote the entry, age bucket, lifetime); each history runs in one of 7 "
             "time zones (TZ + tzset); plus archives holding members named like the cache file, stamped now / in the "
             "past / in the future, compared with the same archive without them",
        assumptions=["decisions closer than 10 s to the lifetime are not probed (the code truncates mtime to whole seconds)",
                     "the directory's own .abstract is not mutated (it is rendered live, not from the cache)"])


if __name__ == "__main__":
    common.main_wrapper(main)
