"""C08 -- UMN link files, .cap overrides and abstracts have their documented effect.

The reference reader below is written from doc/pygopherd.txt (LINKS, OVERRIDING
DEFAULTS, ADDING COOL LINKS, HIDING AN ENTRY, ABSTRACTS AND INFO, GOPHER ITEM TYPES)
and the extstrip comments of the shipped configuration; it shares no code with
pygopherd.handlers.UMN."""
from __future__ import annotations

import typing

from vf import common, driver, parsers, reqs, validate
from vf.common import Check, Scratch
from vf.trees import Tree, gz

HOST, PORT = driver.SERVER_NAME, 70

# extension -> (gopher type, strippable?)  (types per the shipped [GopherEntry] mapping)
EXT = {".txt": ("0", True), ".gif": ("g", True), ".png": ("I", True), ".mp3": ("s", True), ".pdf": ("9", True),
       ".qqq": ("0", False), "": ("0", False),
       # short spellings of encoded archives (x.tgz = x.tar.gz): encoded files, stripped only under 'full'
       ".tgz": ("9", "encoded"), ".taz": ("9", "encoded"), ".tbz2": ("9", "encoded"), ".txz": ("9", "encoded"),
       ".tar": ("9", True)}
WORDS = ["Alpha", "Bravo", "Charlie", "Delta", "Echo", "Foxtrot", "Golf", "Hotel", "India", "Juliet", "Kilo", "Lima",
         "Mike", "November", "Oscar", "Papa", "Quebec", "Romeo", "Sierra", "Tango"]


class E:
    def __init__(self, type_, name, selector, host=None, port=None, num=0, abstract=None):
        self.type, self.name, self.selector, self.host, self.port, self.num, self.abstract = \
            type_, name, selector, host, port, num, abstract

    def line(self):
        return (self.type, self.name, self.selector, self.host or HOST, self.port if self.port is not None else PORT)


def parse_blocks(text: str) -> typing.List[typing.Dict[str, str]]:
    """A link file: blocks separated by blank lines, 'Key=value' lines; a trailing
    backslash on an Abstract line continues it on the next line."""
    blocks, cur = [], {}
    lines = text.split("\n")
    i = 0
    while i < len(lines):
        ln = lines[i].strip()
        i += 1
        if not ln:
            if cur:
                blocks.append(cur)
                cur = {}
            continue
        if ln.startswith("#"):
            continue
        k, _, v = ln.partition("=")
        if k == "Abstract":
            parts = []
            while v.endswith("\\") and i < len(lines):
                parts.append(v[:-1])
                v = lines[i].strip()
                i += 1
            parts.append(v)
            v = "\n".join(parts)
        cur[k] = v
    if cur:
        blocks.append(cur)
    return blocks


def apply_fields(e: E, b: typing.Dict[str, str]) -> None:
    if "Name" in b:
        e.name = b["Name"]
    if "Type" in b:
        e.type = b["Type"][:1]
    if "Numb" in b:
        e.num = int(b["Numb"])
    if "Abstract" in b and b["Abstract"]:
        e.abstract = b["Abstract"]
    if "Host" in b and b["Host"] != "+":
        e.host = b["Host"]
    if "Port" in b and b["Port"] != "+":
        e.port = int(b["Port"])


def umn_ref(spec: dict, extstrip: str, base: str) -> typing.Tuple[typing.List[str], typing.List[E]]:
    """spec: {'files': {name: {'ext':..,'abstract':..}}, 'dirs': {name: abstract|None}, 'links': {fname: text},
    'caps': {name: text}, 'dirabstract': str|None} -> (header lines, ordered entries)"""
    entries: typing.Dict[str, E] = {}
    for n, f in spec["files"].items():
        typ, strip = EXT[f["ext"]]
        disp = n
        if f.get("gz"):
            typ = "9"
            if extstrip == "full":
                disp = n[:-len(f["ext"]) - 3]
        elif strip == "encoded":
            if extstrip == "full":
                disp = n[:-len(f["ext"])]
        elif strip and extstrip in ("full", "nonencoded"):
            disp = n[:-len(f["ext"])]
        entries[n] = E(typ, disp, base + "/" + n, abstract=f.get("abstract"))
    for n, ab in spec["dirs"].items():
        entries[n] = E("1", n, base + "/" + n, abstract=ab)
    hidden = set()
    # .cap/<name>
    for n, text in spec["caps"].items():
        bl = parse_blocks(text)
        if bl and n in entries:
            apply_fields(entries[n], bl[0])
            if entries[n].type in ("X", "-"):
                hidden.add(n)
    out = [e for n, e in entries.items()]
    # link files, in name order (later files override earlier ones)
    for fname in sorted(spec["links"]):
        for b in parse_blocks(spec["links"][fname]):
            if "Path" not in b:
                continue
            path = b["Path"]
            if path.startswith("./"):
                n = path[2:].rstrip("/")
                if n in entries and n not in hidden:
                    apply_fields(entries[n], b)
                    if entries[n].type in ("X", "-"):
                        hidden.add(n)
                    continue
                if n in entries:
                    continue
                e = E(None, None, base + "/" + n)
            else:
                e = E(None, None, path.rstrip("/") if len(path) > 1 else path)
            apply_fields(e, b)
            if e.type in ("X", "-"):
                continue  # never displayed, never transmitted
            out.append(e)
    out = [e for e in out if not any(e is entries.get(h) for h in hidden)]
    pos = sorted((e for e in out if e.num > 0), key=lambda e: (e.num, e.name))   # equal numbers: by title
    zero = sorted((e for e in out if e.num == 0), key=lambda e: e.name)
    neg = sorted((e for e in out if e.num < 0), key=lambda e: e.num)
    header = (spec.get("dirabstract") or "").split("\n") if spec.get("dirabstract") else []
    return header, pos + zero + neg


# ------------------------------------------------------------------------------ generator
def gen_case(rng, idx: int, base: str = ""):
    used = set()

    def word():
        while True:
            w = rng.choice(WORDS) + str(rng.randrange(10, 99))
            if w not in used:
                used.add(w)
                return w

    spec = {"files": {}, "dirs": {}, "links": {}, "caps": {}, "dirabstract": None}
    t = Tree()
    # every tenth directory has no link file and no .cap file at all: nothing but names and extension stripping
    bare = idx % 10 == 0
    if bare or rng.random() < 0.3:
        # names whose order changes when the extension is stripped ('-' and '+' sort before '.', 'a' after)
        for stem, other in rng.sample([("a", "a-b"), ("notes", "notes-old"), ("x", "x+y"), ("Report", "Report 2"), ("k", "k,1")], 2):
            ext = rng.choice([".txt", ".gif", ".pdf"])
            for n in (stem + ext, other + ext):
                t.file(n, b"data of " + n.encode() + b"\n")
                spec["files"][n] = {"ext": ext}
                used.add(n)
    for _ in range(rng.randrange(0, 8)):
        ext = rng.choice(list(EXT))
        n = word() + ext
        if ext and EXT[ext][1] is True and rng.random() < 0.2:
            # the extension text occurs twice: only the final one is the extension
            n = n + rng.choice([".old", ".v2", ""]) + ext
        f = {"ext": ext}
        data = b"data of " + n.encode() + b"\n"
        if ext == ".txt" and rng.random() < 0.15:
            n += ".gz"
            f["gz"] = True
            data = gz(data)
        if rng.random() < 0.3:
            f["abstract"] = rng.choice(["About " + n, "Two line\nabstract for " + n, "trailing blanks   \nsecond"])
            t.file(n + ".abstract", f["abstract"] + rng.choice(["", "\n"]))
            f["abstract"] = "\n".join(x.rstrip() for x in f["abstract"].split("\n"))
        t.file(n, data)
        spec["files"][n] = f
    for _ in range(rng.randrange(0, 3)):
        n = word()
        ab = None
        t.file(n + "/inside.txt", "x\n")
        if rng.random() < 0.4:
            ab = "Directory %s abstract" % n
            t.file(n + "/.abstract", ab + "\n")
        spec["dirs"][n] = ab
    if rng.random() < 0.4:
        spec["dirabstract"] = rng.choice(["Header abstract", "Header line 1\nHeader line 2"])
        t.file(".abstract", spec["dirabstract"] + "\n")
    numbers = rng.sample([1, 2, 3, 4, 5, 7, 10, 25, -1, -2, -5], 8)
    if rng.random() < 0.5:
        # several entries sharing one positive number (they are then ordered by title)
        numbers += [numbers[0] if numbers[0] > 0 else 3] * 2 + [3, 3]
        rng.shuffle(numbers)
    existing = list(spec["files"]) + list(spec["dirs"])
    overridden = set()
    twice, hiders = set(), set()
    for fname in rng.sample([".Links", ".names", ".zlinks", ".alinks"], 0 if bare else rng.randrange(0, 4)):
        blocks = []
        for _ in range(rng.randrange(1, 5)):
            lines = []
            r = rng.random()
            if r < 0.45 and existing:
                n = rng.choice(existing)
                again = None
                if n in overridden:
                    # one override per entry (several that all show are order-of-files semantics) -- except where one
                    # of the two hides the entry: hidden is hidden, whichever block comes first and whatever the other sets
                    if n in twice or rng.random() < 0.5:
                        continue
                    twice.add(n)
                    again = "rename" if n in hiders else "hide"
                overridden.add(n)
                lines.append("Path=./" + n + ("/" if n in spec["dirs"] and rng.random() < 0.6 else ""))
                opts = []
                if rng.random() < 0.6 or again == "rename":
                    opts.append("Name=" + word() + " renamed")
                if rng.random() < 0.4 and numbers:
                    opts.append("Numb=%d" % numbers.pop())
                if again == "hide":
                    opts.append("Type=" + rng.choice(["X", "-"]))
                elif rng.random() < 0.25 and again is None:
                    opts.append("Type=" + rng.choice(["X", "X", "-", "9", "0"]))
                if any(o in ("Type=X", "Type=-") for o in opts):
                    hiders.add(n)
                if rng.random() < 0.3:
                    opts.append(rng.choice(["Abstract=Link abstract for " + n,
                                            "Abstract=first part\\\nsecond part\\\nthird part",
                                            # continuation lines are text, whatever they begin with
                                            "Abstract=Top three this week:\\\n#1 first\\\n#2 second\\\nName=not a field",
                                            # only the LAST backslash continues the line; the ones before it are text
                                            "Abstract=Files live in C:\\GOPHER\\\\\nsecond line",
                                            "Abstract=three \\\\\\\nnext \\ mid\\\nlast"]))
                rng.shuffle(opts)
                lines += opts
                rng.shuffle(lines)
            else:
                kind = rng.random()
                name = word() + rng.choice([" link", " site", ""])
                if kind < 0.1 and existing:
                    # a block WITHOUT ./ whose absolute path is the selector of a file of this very directory: still a new
                    # entry of its own (only ./ blocks speak about the directory's files)
                    path, host, port = base + "/" + rng.choice(existing), "+", "+"
                    name += " mirror"
                elif kind < 0.4:
                    path, host, port = "/remote/" + word(), "gopher%d.example.org" % rng.randrange(9), str(rng.choice([70, 7070, 105]))
                elif kind < 0.6:
                    path, host, port = "/local/" + word(), "+", "+"
                elif kind < 0.75:
                    path, host, port = "/URL:http://www.example.org/" + word(), "+", "+"
                elif kind < 0.8:
                    # "a plus in either of these two fields": this host on another port / another host on this port
                    path, host, port = rng.choice([("/mixed/" + word(), "+", "7070"), ("/mixed/" + word(), "mix.example.org", "+")])
                elif kind < 0.9:
                    path, host, port = word().lower(), "finger.example.org", "79"   # relative path on a remote host
                else:
                    path, host, port = "1/Moo/" + word(), "zippy.example.org", "150"
                lines = ["Name=" + name, "Type=" + rng.choice(["0", "1", "h", "7", "9", "g", "I", "X", "-"]) if rng.random() < 0.9
                         else "Type=1", "Path=" + path, "Host=" + host, "Port=" + port]
                if rng.random() < 0.4 and numbers:
                    lines.append("Numb=%d" % numbers.pop())
                if rng.random() < 0.25:
                    lines.append(rng.choice(["Abstract=About " + name, "Abstract=About " + name,
                                             "Abstract=Ranking:\\\n# 1 " + name + "\\\n#2 the rest",
                                             "Abstract=In D:\\PUB\\\\\nof " + name]))
                rng.shuffle(lines)
            # 'Numb=' cannot be the last line of a link (manual)
            if lines and lines[-1].startswith("Numb=") and len(lines) > 1:
                lines[0], lines[-1] = lines[-1], lines[0]
            if lines and lines[-1].startswith("Numb="):
                lines.append("Name=" + word())
            # a comment inside the block, somewhere before its Path line (comments are skipped; one after the Path
            # would end the block)
            pidx = next((k for k, ln in enumerate(lines) if ln.startswith("Path=")), None)
            if pidx is not None and rng.random() < 0.3 and not any("\\\n" in ln for ln in lines[:pidx]):
                lines.insert(rng.randrange(0, pidx + 1), rng.choice(["# a note about this link", "#", "#Path=/not/this/one"]))
            # a continued Abstract must not be followed by nothing
            blocks.append("\n".join(lines))
        if not blocks:
            continue
        sep = rng.choice(["\n\n", "\n\n\n", "\n\n# a comment between links\n"])
        text = sep.join(blocks) + rng.choice(["\n", "\n\n", ""])
        spec["links"][fname] = text
        t.file(fname, text)
    for n in existing:
        if bare or n in overridden or rng.random() > 0.25:
            continue
        opts = []
        if rng.random() < 0.7:
            opts.append("Name=" + word() + " capped")
        if rng.random() < 0.5 and numbers:
            opts.append("Numb=%d" % numbers.pop())
        if rng.random() < 0.2:
            opts.append("Type=" + rng.choice(["X", "-"]))
        if not opts:
            continue
        rng.shuffle(opts)
        if opts[-1].startswith("Numb=") and len(opts) > 1:
            opts[0], opts[-1] = opts[-1], opts[0]
        if opts[-1].startswith("Numb="):
            opts.append("Name=" + word())
        text = "\n".join(opts) + "\n"
        spec["caps"][n] = text
        t.file(".cap/" + n, text)
    return t, spec


def feature_sig(spec) -> tuple:
    txt = "".join(spec["links"].values()) + "".join(spec["caps"].values())
    return (len(spec["files"]) > 0, len(spec["dirs"]) > 0, len(spec["links"]), len(spec["caps"]) > 0,
            "Path=./" in txt, "Type=X" in txt, "Type=-" in txt, "Host=+" in txt, "Numb=-" in txt, "Numb=" in txt,
            "Abstract=" in txt, "\\\n" in txt, bool(spec["dirabstract"]), "URL:" in txt)


def run_case(chk: Check, sc: Scratch, idx: int) -> None:
    rng = chk.subrng("case", idx)
    depth = rng.choice(["", "/sub", "/a/b"])
    t, spec = gen_case(rng, idx, depth)
    full = Tree()
    if depth:
        full.subtree(depth.strip("/"), t)
    else:
        full = t
    root = sc.sub("r%d" % idx)
    full.materialize(root)
    extstrip = rng.choice(["none", "nonencoded", "full"])
    headers = rng.choice(["on", "off"])
    site = driver.Site(root, overrides={("handlers.UMN.UMNDirHandler", "extstrip"): extstrip,
                                        ("pygopherd", "abstract_entries"): "always",
                                        ("pygopherd", "abstract_headers"): headers})
    try:
        req, _ = reqs.render("gopher", depth.encode() or b"/")
        resp = site.request(req)
        v = validate.validate(resp, req)
        sample = {"dir": depth or "/", "extstrip": extstrip, "spec": spec, "reply": resp.data[:1500]}
        if not v.ok or v.klass != "menu":
            chk.witness("C08/listing-failed", dict(sample, log=resp.log[:3], escaped=resp.escaped[:1], reason=v.reason))
            return
        header, ents = umn_ref(spec, extstrip, depth)
        want: typing.List[tuple] = []
        if headers == "on":
            want += [("i", h) for h in header]
        groups: typing.List[typing.List[tuple]] = []   # an entry and its abstract lines travel together
        for e in ents:
            g = [e.line()] + [("i", a) for a in (e.abstract.split("\n") if e.abstract else [])]
            groups.append(g)
        got = []
        for d in v.parsed:
            if d["type"] == "i":
                got.append(("i", d["name"].decode("utf-8", "surrogateescape")))
            else:
                got.append((d["type"], d["name"].decode("utf-8", "surrogateescape"),
                            d["selector"].decode("utf-8", "surrogateescape"), d["host"].decode(), d["port"]))
        # negative-numbered entries: the manual orders them after everything else but not among themselves
        nneg = sum(1 for e in ents if e.num < 0)
        head_groups = groups[:len(groups) - nneg]
        neg_groups = groups[len(groups) - nneg:]
        flat_head = want + [x for g in head_groups for x in g]
        if got[:len(flat_head)] != flat_head:
            i = next((k for k, (a, b) in enumerate(zip(got, flat_head)) if a != b), min(len(got), len(flat_head)))
            chk.witness("C08/" + classify(got, flat_head, i, spec), dict(sample, index=i, got=got[i:i + 3], want=flat_head[i:i + 3]))
            return
        rest = got[len(flat_head):]
        if sorted(map(repr, rest)) != sorted(repr(x) for g in neg_groups for x in g):
            chk.witness("C08/negative-numbered-entries-differ", dict(sample, got=rest, want=neg_groups))
            return
        chk.case(feature_sig(spec) + (extstrip, headers), dict(sample, reply=resp.data[:300]) if idx % 40 == 0 else None)
    finally:
        site.close()


def classify(got, want, i, spec) -> str:
    """Name the mechanism from the first differing position."""
    g = got[i] if i < len(got) else None
    w = want[i] if i < len(want) else None
    if g is None:
        return "entry-missing:" + _kind(w, spec)
    if w is None:
        return "extra-entry:" + _kind(g, spec)
    if g[0] == "i" or w[0] == "i":
        return "abstract-lines-differ"
    if g[2] == w[2]:
        for k, nm in ((0, "type"), (1, "name"), (3, "host"), (4, "port")):
            if g[k] != w[k]:
                return "field-differs:" + nm
    gsel = {x[2] for x in got if x[0] != "i"}
    wsel = {x[2] for x in want if x[0] != "i"}
    if g[2] not in wsel:
        return "extra-entry:" + _kind(g, spec)
    if w[2] not in gsel:
        return "entry-missing:" + _kind(w, spec)
    return "order-differs"


def _kind(x, spec) -> str:
    if x is None or x[0] == "i":
        return "info"
    txt = "".join(spec["links"].values())
    n = x[2].rsplit("/", 1)[-1]
    if n in spec["files"] or n in spec["dirs"]:
        return "directory-entry"
    if x[0] in ("X", "-"):
        return "link-of-hidden-type"
    return "link-entry"


def main() -> int:
    chk = Check("C08", "exploration")
    quick = chk.tier == "quick"
    if not quick and chk.args.shard is None:
        common.run_shards(chk, "vf.checks.c08", 16, timeout=2400)
    else:
        with Scratch("c08") as sc:
            for i in range(600 if quick else 2500):
                run_case(chk, sc, i)
                if i % 50 == 49:
                    import shutil
                    for d in __import__("os").listdir(sc.path):
                        shutil.rmtree(__import__("os").path.join(sc.path, d), ignore_errors=True)
    return chk.finish(
        rule="case = one generated directory with 0-3 link files (1-4 blocks each, lines in any order), .cap files, "
             "sidecar and directory abstracts, real files and sub-directories, an extstrip mode; the Gopher menu must "
             "equal the reference reading (type, name, selector, host, port per line, abstracts as info lines after "
             "their entry), in the documented order. distinct = feature vector of the case (which constructs occur) x "
             "extstrip x abstract_headers",
        assumptions=["constructs the manual does not define are not generated: comments inside a block, Numb= as "
                     "last line, relative Path on this server, several overrides of one entry, ties on (number, title), "
                     "mixed-case titles, HTML titles combined with extension stripping",
                     "negative-numbered entries are compared as a set placed after all others",
                     "Type X and - are never displayed (GOPHER ITEM TYPES)"])


if __name__ == "__main__":
    common.main_wrapper(main)
