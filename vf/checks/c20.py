"""C20 -- a failing client connection is contained in its own handler (fault enumeration)."""
from __future__ import annotations

import errno
import gc
import os
import socket
import threading
import typing
import warnings

from vf import common, driver, reqs, trees
from vf.common import Check, Scratch
from vf.trees import Tree


def make_error(kind: str) -> BaseException:
    kind = kind.split("-")[0]
    if kind == "EPIPE":
        return BrokenPipeError(errno.EPIPE, os.strerror(errno.EPIPE))
    if kind == "ECONNRESET":
        return ConnectionResetError(errno.ECONNRESET, os.strerror(errno.ECONNRESET))
    return socket.timeout("timed out")        # single argument, errno None


ERROR_CLASS = {"EPIPE": "BrokenPipeError", "ECONNRESET": "ConnectionResetError", "timeout": type(socket.timeout()).__name__,
               "timeout-once": type(socket.timeout()).__name__,
               # what the kernel does after a peer's reset (or after a timed-out send on a connection that then goes away):
               # the first failing write reports the reset, every later one a broken pipe
               "ECONNRESET-then-EPIPE": "ConnectionResetError", "timeout-then-EPIPE": type(socket.timeout()).__name__}
# the class any further write fails with, where it differs from the first failure's
LATER_CLASS = {"ECONNRESET-then-EPIPE": "BrokenPipeError", "timeout-then-EPIPE": "BrokenPipeError"}


class Faulty:
    """Mixin for the server-side socket: sendall succeeds `fail_after` times, then raises
    on that and every later call (a broken connection stays broken)."""
    fail_after: typing.Optional[int] = None
    error_kind = "EPIPE"
    writes = 0
    failures = 0
    transient = False      # a send timeout can hit one write only: that call fails, later ones would succeed

    def sendall(self, data, *a):  # noqa
        if self.fail_after is not None and self.writes >= self.fail_after and not (self.transient and self.failures):
            self.failures += 1
            if self.failures > 1 and self.error_kind in LATER_CLASS:
                raise make_error("EPIPE")
            raise make_error(self.error_kind)
        self.writes += 1
        return super().sendall(data, *a)


class FaultyPlain(Faulty, socket.socket):
    def __init__(self, sock):  # noqa
        socket.socket.__init__(self, sock.family, sock.type, sock.proto, fileno=sock.detach())


class FaultyTLS(Faulty, driver.MockTLSSocket):
    pass


def fds() -> typing.Dict[int, str]:
    out = {}
    for n in os.listdir("/proc/self/fd"):
        try:
            out[int(n)] = os.readlink("/proc/self/fd/" + n)
        except OSError:
            pass
    return out


def build_site(sc: Scratch):
    t = Tree()
    t.file("small.txt", "small document\n")
    # the same kinds of object under names that mean something to %-formatting, str.format and log parsers (a failure
    # is reported with the request it belongs to)
    t.file("50%off %s %(x)d {0}.txt", "odd name\n" * 600)
    for i in range(4):
        t.file("rates 5%%d {x}/entry%d.txt" % i, "e\n")
    t.file("large.bin", trees.gen_content(__import__("random").Random(1), 70000, "binary"))
    for i in range(14):
        t.file("menu/entry%02d.txt" % i, "e\n")
        if i % 3 == 0:
            t.file("menu/entry%02d.txt.abstract" % i, "abstract of %d\nsecond line" % i)
    t.file("menu/.abstract", "menu header")
    # a menu whose last write is an entry's abstract (every entry has one)
    for i in range(5):
        t.file("menu2/e%d.txt" % i, "e\n")
        t.file("menu2/e%d.txt.abstract" % i, "abstract of %d" % i)
    t.file("mail.mbox", trees.make_mbox(["One", "Two", "Three"], sc.path))
    inner = Tree().file("member.txt", "zip member\n" * 50).file("sub/a.txt", "a").file("sub/b.txt", "b")
    t.file("arch.zip", inner.to_zip())
    t.file("packed.txt.gz", trees.gz(b"decompressed payload\n" * 300))
    t.file("cgi.sh", b"#!/bin/sh\necho script output line 1\necho line 2\n", mode=0o755)
    t.file("gm/gophermap", "info line\n0Local\t/small.txt\n1Remote\t/x\thost.example\t70\n")
    root = sc.sub("root")
    t.materialize(root)
    return root


# (label, selector, views)
KINDS = [
    ("document", b"/small.txt", ["gopher", "gophers", "gopherp+", "http", "https", "wap", "gemini", "spartan"]),
    ("large-document", b"/large.bin", ["gopher", "gopherps+", "https", "gemini", "spartan"]),
    ("menu", b"/menu", ["gopher", "gophers", "gopherp+", "gopherp$", "http", "https", "wap", "gemini", "spartan"]),
    ("menu-ending-in-an-abstract", b"/menu2", ["gopher", "gophers", "gopherp+", "http", "wap", "gemini", "spartan"]),
    ("document-odd-name", b"/50%off %s %(x)d {0}.txt", ["gopher", "gopherp+", "http", "gemini", "spartan"]),
    ("menu-odd-name", b"/rates 5%d {x}", ["gopher", "gopherp$", "http", "spartan"]),
    ("error-page-odd-name", b"/no such 100% %s {0}", ["gopher", "http", "gemini"]),
    ("error-page", b"/does-not-exist", ["gopher", "gopherp+", "http", "wap", "gemini", "spartan", "https"]),
    ("gopherplus-item-info", b"/small.txt", ["gopherp!"]),
    ("gopherplus-dir-info", b"/menu", ["gopherp$", "gopherps$"]),
    ("zip-member", b"/arch.zip/member.txt", ["gopher", "gopherp+", "https", "gemini"]),
    ("zip-menu", b"/arch.zip/sub", ["gopher", "http", "spartan", "gopherp$"]),
    ("mailbox-folder", b"/mail.mbox", ["gopher", "http", "gemini", "gopherp$"]),
    ("mailbox-message", b"/mail.mbox|/MBOX-MESSAGE/2", ["gopher", "gopherp+", "https", "spartan"]),
    ("decompressed-file", b"/packed.txt.gz", ["gophers", "https", "gemini", "wap"]),
    ("script-output", b"/cgi.sh", ["gophers", "https", "gemini", "wap"]),
    ("gophermap", b"/gm", ["gopher", "http", "gemini"]),
    ("icon", b"/PYGOPHERD-HTTPPROTO-ICONS/text.gif", ["http"]),
]


class RW:
    """M-RW: files finalised without close()."""

    def __init__(self):
        self.seen: typing.List[str] = []

    def __enter__(self):
        self._old = warnings.showwarning
        self._filters = warnings.filters[:]
        warnings.simplefilter("always", ResourceWarning)

        def show(message, category, filename, lineno, file=None, line=None):
            if issubclass(category, ResourceWarning):
                self.seen.append("%s (%s:%s)" % (message, filename, lineno))

        warnings.showwarning = show
        return self

    def __exit__(self, *a):
        warnings.showwarning = self._old
        warnings.filters[:] = self._filters


def one(chk: Check, site: driver.Site, root: str, label: str, view: str, sel: bytes, kind: typing.Optional[str],
        k: typing.Optional[int], allowed_extra: typing.Set[str]):
    req, tls = reqs.render(view, sel)
    holder = {}

    def wrap(sock):
        cls = FaultyTLS if tls else FaultyPlain
        fs = cls(sock)
        fs.fail_after = k
        fs.error_kind = kind or "EPIPE"
        fs.transient = bool(kind) and kind.endswith("-once")
        holder["sock"] = fs
        return fs

    gc.collect()
    before = fds()
    with RW() as rw:
        r = site.request(req, tls=False, server_sock_wrapper=wrap)
        fs = holder["sock"]
        writes, failures = fs.writes, fs.failures
        holder.clear()
        del fs
        after_nogc = fds()
        gc.collect()
        after = fds()
    leaked = {fd: tgt for fd, tgt in after.items() if fd not in before and not tgt.startswith(("socket:", "pipe:", "anon_inode"))}
    leaked_nogc = {fd: tgt for fd, tgt in after_nogc.items() if fd not in before and not tgt.startswith(("socket:", "pipe:", "anon_inode"))}
    if leaked_nogc and not leaked:
        chk.count("fds_closed_only_by_gc", len(leaked_nogc))
    return r, writes, failures, leaked, [w for w in rw.seen if "unclosed file" in w and (root in w or "name=" in w)]


class _GatedPlain(socket.socket):
    """Server-side socket of the healthy neighbour: announces its first write and then holds it until told to go on."""
    entered: typing.Optional[threading.Event] = None
    go_on: typing.Optional[threading.Event] = None
    first = True

    def __init__(self, sock):  # noqa
        socket.socket.__init__(self, sock.family, sock.type, sock.proto, fileno=sock.detach())

    def sendall(self, data, *a):  # noqa
        if self.first:
            self.first = False
            self.entered.set()
            self.go_on.wait(10)
        return super().sendall(data, *a)


class _FaultyWaiting(FaultyPlain):
    """Fails like FaultyPlain, but not before the neighbour is inside its own handler."""
    neighbour_entered: typing.Optional[threading.Event] = None

    def sendall(self, data, *a):  # noqa
        if self.fail_after is not None and self.writes >= self.fail_after and not self.failures:
            self.neighbour_entered.wait(10)
        return super().sendall(data, *a)


def overlapping_failures(chk: Check, site: driver.Site) -> None:
    """Two connections at once in one process (the threading server): A's connection fails while B's request is being
    handled.  The failure is A's: every EXCEPTION line carries A's address, none B's, none an unknown one."""
    A, B = ("10.1.1.1", 1111), ("10.2.2.2", 2222)
    combos = [("document", "gopher", b"/small.txt"), ("menu", "gopher", b"/menu"), ("document", "spartan", b"/small.txt"),
              ("info", "gopherp$", b"/menu"), ("document", "http", b"/small.txt"), ("zip-member", "gopher", b"/arch.zip/member.txt")]
    for label, view, sel in combos:
        for ek in ("EPIPE", "ECONNRESET", "timeout"):
            for k in (0, 1):
                entered, go_on = threading.Event(), threading.Event()
                req, _ = reqs.render(view, sel)
                breq, _ = reqs.render("gopher", b"/menu")

                def serve(request, addr, wrap):
                    s_srv, s_cli = socket.socketpair()
                    s_cli.settimeout(20)

                    def client():
                        try:
                            s_cli.sendall(request)
                            s_cli.shutdown(socket.SHUT_WR)
                            while s_cli.recv(65536):
                                pass
                        except OSError:
                            pass
                        finally:
                            s_cli.close()
                    ct = threading.Thread(target=client, daemon=True)
                    ct.start()
                    site.server.process_request_thread(wrap(s_srv), addr)
                    ct.join(25)

                made = {}

                def wrap_a(sock):
                    fs = _FaultyWaiting(sock)
                    fs.fail_after, fs.error_kind, fs.neighbour_entered = k, ek, entered
                    made["a"] = fs
                    return fs

                def wrap_b(sock):
                    g = _GatedPlain(sock)
                    g.entered, g.go_on = entered, go_on
                    return g

                with site._loglock:
                    site._log.clear()
                site._escaped.clear()
                tb = threading.Thread(target=serve, args=(breq, B, wrap_b), daemon=True)
                tb.start()
                serve(req, A, wrap_a)          # returns when A's handler is done with its failure
                go_on.set()
                tb.join(30)
                with site._loglock:
                    log = list(site._log)
                chk.count("overlapping_connection_pairs")
                if not made["a"].failures:
                    chk.count("overlapping_pairs_whose_response_was_complete_before_the_fault")
                    continue
                exc_lines = [ln for ln in log if "EXCEPTION" in ln]
                sample = {"kind": label, "view": view, "selector": sel, "error": ek, "fail_at_write": k, "failing_client": A[0],
                          "neighbour": B[0], "log": log[:6], "escaped": site._escaped[:1]}
                if not entered.is_set():
                    chk.note_inconclusive("the neighbour connection never reached its first write")
                    return
                if site._escaped:
                    chk.witness("C20/exception-left-the-handler:overlapping", sample)
                    return
                foreign = [ln for ln in exc_lines if not ln.startswith(A[0] + " ")]
                if foreign:
                    chk.witness("C20/failure-logged-under-another-address", dict(sample, lines=foreign[:3]))
                    return
                if not any(ln.startswith(A[0] + " ") and "EXCEPTION " + ERROR_CLASS[ek] in ln for ln in exc_lines):
                    chk.witness("C20/failure-not-logged-under-its-own-class:%s" % ek, dict(sample, overlapping=True))
                    return
                chk.case(("overlapping", label, view, ek, k), sample if k == 0 and ek == "EPIPE" else None)


def real_resets(chk: Check, sc: Scratch, nresets: int) -> None:
    """The same containment on the real server process with real kernel errors: clients fetch a
    large document, read r bytes and reset the connection (SO_LINGER 0)."""
    import re
    import struct
    import time
    from vf import spdriver
    root = sc.sub("sp-root")
    t = Tree()
    t.file("big.bin", trees.gen_content(__import__("random").Random(2), 8 * 1024 * 1024, "binary"))
    t.file("small.txt", "small\n")
    t.materialize(root)
    rng = chk.subrng("resets")
    for servertype in ("ThreadingTCPServer", "ForkingTCPServer"):
        sp = spdriver.ServerProcess(root=root, servertype=servertype, tls=False, workdir=sc.sub("sp-" + servertype[:4]), name="c20")
        sp.start()
        try:
            if not sp.wait_ready(30):
                chk.note_inconclusive("C20 server process did not become ready")
                return
            views = ["gopher", "gopherp+", "http", "spartan"]
            for i in range(nresets):
                view = views[i % len(views)]
                req, _ = reqs.render(view, b"/big.bin")
                r = rng.choice([0, 1, 100, 4096, 65536, 300000])
                try:
                    s = socket.create_connection(("127.0.0.1", sp.port), timeout=20)
                    s.sendall(req)
                    got = 0
                    while got < r:
                        b = s.recv(min(65536, r - got))
                        if not b:
                            break
                        got += len(b)
                    s.setsockopt(socket.SOL_SOCKET, socket.SO_LINGER, struct.pack("ii", 1, 0))
                    s.close()
                except OSError:
                    chk.count("reset_client_errors")
                chk.count("real_connection_resets")
            # the server must still answer, and must have logged each failure under its own class
            deadline = time.monotonic() + 20
            while time.monotonic() < deadline:
                log = sp.stdout_text()
                n = len(re.findall(r"127\.0\.0\.1 \[[A-Za-z]+/None\] EXCEPTION (BrokenPipeError|ConnectionResetError)", log))
                if n >= nresets * 0.8:
                    break
                time.sleep(0.3)
            try:
                probe = sp.request(b"/small.txt\r\n")
            except OSError as e:
                probe = b"<%s>" % type(e).__name__.encode()
            log = sp.stdout_text()
            classes = re.findall(r"EXCEPTION ([A-Za-z_.]+)", log)
            own = [c for c in classes if c in ("BrokenPipeError", "ConnectionResetError")]
            other = sorted(set(c for c in classes if c not in ("BrokenPipeError", "ConnectionResetError")))
            sample = {"servertype": servertype, "resets": nresets, "logged_under_own_class": len(own), "other_classes": other,
                      "probe": probe[:40], "stderr_tail": sp.stderr_text()[-400:]}
            held = []
            for _ in range(40):
                held = []
                try:
                    for fd in os.listdir("/proc/%d/fd" % sp.pid):
                        try:
                            tgt = os.readlink("/proc/%d/fd/%s" % (sp.pid, fd))
                        except OSError:
                            continue
                        if tgt.startswith(root):
                            held.append((fd, tgt))
                except OSError:
                    pass
                if not held:
                    break
                time.sleep(0.25)
            chk.count("real_server_descriptor_tables_inspected")
            if probe != b"small\n":
                chk.witness("C20/server-down-after-client-resets:%s" % servertype, sample)
            elif held:
                chk.witness("C20/descriptor-left-open:real-server", dict(sample, still_open_10s_after_the_resets=held[:6]))
            elif other:
                chk.witness("C20/real-reset-logged-as-%s" % other[0], sample)
            elif len(own) < nresets * 0.5:
                chk.witness("C20/real-resets-not-logged-under-their-own-class", sample)
            elif "Exception occurred during processing of request" in sp.stderr_text():
                chk.witness("C20/real-reset-left-the-handler", sample)
            else:
                chk.count("real_resets_logged_under_own_class", len(own))
                chk.case(("real-resets", servertype), sample)
            if servertype == "ForkingTCPServer":
                time.sleep(1.5)
                kids = [m for m in spdriver.session_members(sp.sid) if m[0] != sp.pid]
                if kids:
                    time.sleep(3)
                    kids = [m for m in spdriver.session_members(sp.sid) if m[0] != sp.pid]
                if kids:
                    chk.witness("C20/workers-left-after-client-resets", dict(sample, processes=kids[:5]))
        finally:
            sp.stop()
            sp.cleanup()


def main() -> int:
    chk = Check("C20", "fault_enumeration")
    quick = chk.tier == "quick"
    errors = ["EPIPE", "ECONNRESET", "timeout", "timeout-once", "ECONNRESET-then-EPIPE", "timeout-then-EPIPE"]
    with Scratch("c20") as sc:
        root = build_site(sc)
        site = driver.Site(root, handlers=driver.HANDLERS_FULL)
        try:
            combos = [(label, sel, view) for label, sel, views in KINDS for view in views]
            if chk.tier == "thorough" and chk.args.shard is None:
                pass
            for ci, (label, sel, view) in enumerate(combos):
                driver.clean_server_files(root)
                base, W, _, leaked0, rw0 = one(chk, site, root, label, view, sel, None, None, set())
                if leaked0 or rw0 or base.escaped:
                    chk.witness("C20/fault-free-request-leaks", {"kind": label, "view": view, "leaked": leaked0, "unclosed": rw0[:2],
                                                                 "escaped": base.escaped[:1]})
                    continue
                allowed = set(base.exceptions())
                if W == 0:
                    chk.count("responses_without_python_level_writes")
                    continue
                if W <= (60 if quick else 200):
                    ks = list(range(W + 1))
                else:
                    ks = list(range(24 if quick else 64)) + list(range(24 if quick else 64, W + 1, 7 if quick else 3)) + [W - 1, W]
                ks = sorted(set(ks))
                for ei, ek in enumerate(errors):
                    if quick and len(ks) > 12 and (ci + ei) % 3:
                        use = ks[::3] + [ks[-1]]
                    else:
                        use = ks
                    for k in use:
                        r, writes, failures, leaked, unclosed = one(chk, site, root, label, view, sel, ek, k, allowed)
                        chk.count("injections")
                        sample = {"kind": label, "view": view, "selector": sel, "error": ek, "fail_at_write": k, "writes_fault_free": W,
                                  "log": r.log[:4], "stderr_tail": r.stderr[-300:]}
                        if failures == 0:
                            chk.count("fault_not_reached")   # k == W: the response was complete before the fault
                            if r.escaped or leaked or unclosed:
                                chk.witness("C20/fault-free-request-leaks", sample)
                            continue
                        want = ERROR_CLASS[ek]
                        if r.escaped:
                            chk.witness("C20/exception-left-the-handler:%s" % r.escaped[0][0], dict(sample, traceback=r.escaped[0][1][-500:]))
                            continue
                        excs = r.exceptions()
                        if want not in excs or not any(("10.9.8.7 [" in ln and "EXCEPTION " + want in ln) for ln in r.log):
                            chk.witness("C20/failure-not-logged-under-its-own-class:%s" % ek,
                                        dict(sample, logged_classes=excs))
                            continue
                        # (a later write failing on the same dead connection is that connection's failure too)
                        other = [e for e in excs if e != want and e not in allowed and e != LATER_CLASS.get(ek)]
                        if other:
                            chk.witness("C20/logged-as-%s" % other[0], dict(sample, logged_classes=excs))
                            continue
                        if leaked:
                            chk.witness("C20/descriptor-left-open:%s" % label, dict(sample, leaked=leaked))
                            continue
                        if unclosed:
                            chk.witness("C20/file-finalised-unclosed:%s" % label, dict(sample, warnings=unclosed[:2]))
                            continue
                        chk.case((label, view, ek, k), sample if chk.evaluations % 499 == 0 else None)
            import io
            import sys
            old_stderr, sys.stderr = sys.stderr, io.StringIO()      # (the server prints the tracebacks of failed writes)
            try:
                overlapping_failures(chk, site)
            finally:
                sys.stderr = old_stderr
        finally:
            site.close()
        real_resets(chk, sc, 16 if quick else 200)
    return chk.finish(
        rule="case = (response kind, protocol view, error class, write index k): the server-side socket's sendall "
             "succeeds k times and then raises EPIPE / ECONNRESET / a single-argument timeout on that and every later "
             "call; k ranges over all Python-level writes of the fault-free response (all k for responses of up to "
             "60 (quick) / 200 writes, else a prefix plus a stride). Verdict: nothing escapes the connection handler, a log "
             "record with the client address and the error's own class exists, no record of another class (beyond "
             "those the fault-free request logs), /proc/self/fd back to its state, no file finalised unclosed; plus the real "
             "server process (threading and forking) with clients that read r bytes of an 8 MiB document and reset the "
             "connection: every failure logged under its own class with the client address, server still answering, no "
             "descriptor of the serving process left open on a file of the site; 'timeout-once' fails one write only; "
             "'X-then-EPIPE' fails the first write with X and every later one with EPIPE (the record of X is what is required)",
        assumptions=["responses written by a subprocess straight to the socket (plaintext script/decompressor output) "
                     "have no Python-level writes to fail; they are driven over TLS, where the server relays the output",
                     "descriptors are compared after gc.collect(); ones closed only by the collector are counted"],
        exhaustive=not quick)


if __name__ == "__main__":
    common.main_wrapper(main)
