"""C03 -- every request is answered with one well-formed response, whatever came before."""
from __future__ import annotations

import os
import re
import typing

from vf import common, driver, reqs, sites, validate
from vf.common import Check, Scratch
from vf.trees import Tree


def slug(text: str, n: int = 5) -> str:
    text = re.sub(r"['\"].*?['\"]|b'.*|\d+", "", text)
    return "-".join(re.findall(r"[A-Za-z+]+", text)[:n]).lower()


def innermost_repo_frame(tb_text: str) -> str:
    """'file.py:function' of the innermost frame that belongs to the repository."""
    frames = re.findall(r'File "([^"]+)", line \d+, in (\S+)', tb_text)
    for f, fn in reversed(frames):
        if "/pygopherd/" in f or "/simpletal/" in f:
            return "%s:%s" % (f.rsplit("/", 1)[-1], fn)
    return "%s:%s" % (frames[-1][0].rsplit("/", 1)[-1], frames[-1][1]) if frames else "?"


def hostile_requests(rng, model, full: bool) -> typing.List[typing.Tuple[str, bytes, bool]]:
    """(class label, request bytes, tls)"""
    out: typing.List[typing.Tuple[str, bytes, bool]] = []
    objs = model.docs(full) + model.menus(full)
    H = reqs.HOST.encode()

    def add(label, data, tls=False):
        out.append((label, data, tls))

    # nonexistent and out-of-range selectors, every view
    bad = [b"/nope", b"/umn/nope.txt", b"/umn/one.txt/extra", b"/mail.mbox|/MBOX-MESSAGE/0",
           b"/mail.mbox|/MBOX-MESSAGE/4", b"/mail.mbox|/MBOX-MESSAGE/1000000000",
           b"/mail.mbox|/MBOX-MESSAGE/abc", b"/mail.mbox|/MBOX-MESSAGE/", b"/mail.mbox|",
           b"/md|/MAILDIR-MESSAGE/3", b"/md|/MAILDIR-MESSAGE/0", b"/md|/MAILDIR-MESSAGE/-1",
           b"/mail.mbox?/MBOX-MESSAGE/2", b"/umn|/MBOX-MESSAGE/1", b"/nope|/MBOX-MESSAGE/1",
           b"/arch.zip/nope", b"/arch.zip/inner.txt/x", b"/arch.zip/sub/", b"/gm/gophermap/x",
           b"/cgi.sh?a b", b"/cgi.sh|x", b"/echo.pyg?q", b"/umn/one.txt\x00", b"/\x00",
           b"/1/umn", b"/0/umn/one.txt", b"/x/", b"URL:http://example.org/", b"/URL:http://e.org/a b",
           b"/URL:x", b"/URL:http://e.org/\"q", b"/" + b"A" * 3000,
           # virtual selectors on names that do not exist, inside directories that do (nothing may come into being)
           b"/ghost|/MAILDIR-MESSAGE/1", b"/umn/ghost|/MAILDIR-MESSAGE/1", b"/gm/ghost2?/MAILDIR-MESSAGE/2", b"/ghost3|/MBOX-MESSAGE/1",
           b"/umn/ghost4.mbox|/MBOX-MESSAGE/1", b"/ghost5.zip/inner.txt", b"/ghost6.pyg?x", b"/umn/ghost7/|/MAILDIR-MESSAGE/1",
           # numbers longer than the interpreter converts (int() refuses more than 4300 digits)
           b"/mail.mbox|/MBOX-MESSAGE/" + b"9" * 4400, b"/md|/MAILDIR-MESSAGE/" + b"1" * 5000, b"/mail.mbox|/MBOX-MESSAGE/-" + b"9" * 4400,
           # NUL in front of, inside and behind the real part of selectors that carry a virtual argument
           b"/mail.mbox\x00|/MBOX-MESSAGE/1", b"/\x00/mail.mbox|/MBOX-MESSAGE/2", b"/mail\x00.mbox?/MBOX-MESSAGE/1", b"/nope\x00|/MBOX-MESSAGE/1",
           b"/md\x00|/MAILDIR-MESSAGE/1", b"/\x00|/MAILDIR-MESSAGE/1", b"/cgi.sh\x00?x", b"/cgi.sh?x\x00y", b"/echo.pyg\x00|q", b"/arch.zip\x00/inner.txt",
           b"/arch.zip/inner.txt\x00", b"/gm\x00", b"/umn\x00/one.txt", b"/mail.mbox|/MBOX-MESSAGE/1\x00", b"/mail.mbox|\x00/MBOX-MESSAGE/1"]
    for sel in bad:
        for view in reqs.VIEWS:
            data, tls = reqs.render(view, sel)
            add("bad:" + view, data, tls)
    # a real object's selector with a '.' or empty component appended or inserted: names the same directory to the file
    # system, is no selector the server ever advertised
    # every short run of separators and dots, so that no spelling depends on having been thought of
    import itertools
    dot_slash = [b"/" + bytes(x) for n in range(0, 4) for x in itertools.product(b"/.", repeat=n)]
    menus = set(m.selector for m in model.menus(full))
    for o in objs:
        suffixes = [b"/.", b"/", b"//", b"///", b"/.\\", b"/%2e", b"/. ", b"/%2f", b"/%2F/"]
        if o.selector in menus:
            suffixes += [x for x in dot_slash if x not in suffixes] + [b"/%2e/", b"/./%2e", b"/.%2f"]
        for suffix in suffixes:
            for view in ("gopher", "gopherp$", "http", "wap", "gemini", "spartan", "gophers"):
                if reqs.VIEWS[view][0] in ("gopher", "gopherp") and suffix.startswith(b"/%"):
                    continue
                try:
                    data, tls = reqs.render(view, o.selector.rstrip(b"/") + suffix, prequoted=suffix.startswith(b"/%") and all(c < 128 for c in o.selector))
                except Exception:
                    continue
                add("alias-of-object:" + view, data, tls)
    # traversal / separator mutators
    for _ in range(60):
        o = rng.choice(objs)
        sel = reqs.mutate_traversal(rng, o.selector)
        view = rng.choice(list(reqs.VIEWS))
        data, tls = reqs.render(view, sel)
        add("trav:" + view, data, tls)
    # NUL and other control bytes in the search string of scripts, PYG modules and ordinary objects
    for sel in (b"/cgi.sh", b"/echo.pyg", b"/umn", b"/gm/local.txt", b"/mail.mbox"):
        for q in (b"a\x00b", b"\x00", b"a\x01b", b"a\x7fb", b"\xff\x00", b"a\rb"):
            for view in ("gopher", "gopherp+", "http", "wap", "gemini", "spartan"):
                try:
                    data, tls = reqs.render(view, sel, q)
                except Exception:
                    continue
                add("control-bytes-in-search:" + view, data, tls)
    # Gopher+ malformations
    for sel in (b"/", b"/umn", b"/umn/one.txt", b"/nope", b""):
        for tail in (b"\t", b"\t\t", b"\t \t", b"\t\t+", b"\tq\t", b"\t+\tx\ty", b"\t$junk", b"\t+text/plain",
                     b"\t+application/gopher+-menu", b"\t!x", b"\t +", b"\t+\t1\r\n+ASK: x", b"\t\t\t\t",
                     b"\t!\t", b"\t$\t", b"\tq\t!", b"\tq\t$", b"\tq\t+"):
            for tls in (False, True):
                add("gplus-malformed", sel + tail + b"\r\n", tls)
    # Gemini malformations (TLS)
    for line in (b"gemini://[::1/", b"gemini://", b"gemini://h", b"gemini://h/%", b"gemini://h/%zz",
                 b"gemini://h/a%0d%0a20 text/plain", b"gemini://h/a%0ab", b"gemini://h/GEMINI-QUERY/umn",
                 b"gemini://h/GEMINI-QUERY/umn?abc", b"gemini://h/GEMINI-QUERY", b"gemini://h/?",
                 b"gemini://h/umn?x%0d%0ay", b"gemini://h:99999/", b"gemini://h/umn#frag",
                 b"gemini://u:p@h/umn", b"gemini://h//umn", b"gemini://h/umn/../umn",
                 b"gemini://h/" + b"a" * 2000, b"gemini://h/\xff\xfe", b"gemini://]/",
                 b"gemini://h/umn/one.txt?q", b"gemini://[::1]/umn", b"gemini://[v1.x]/"):
        add("gemini-malformed", line + b"\r\n", True)
        add("gemini-plaintext", line + b"\r\n", False)
    # HTTP malformations
    for line in (b"GET  HTTP/1.0", b"GET / HTTP/", b"GET /a%0d%0ab HTTP/1.0", b"HEAD /a%0d%0aSet-Cookie:x HTTP/1.0",
                 b"GET /?searchrequest= HTTP/1.0", b"GET /?x=1&&=&searchrequest HTTP/1.0",
                 b"GET /PYGOPHERD-HTTPPROTO-ICONS/nope.gif HTTP/1.0", b"GET /PYGOPHERD-HTTPPROTO-ICONS/text.gif HTTP/1.0",
                 b"HEAD /PYGOPHERD-HTTPPROTO-ICONS/text.gif HTTP/1.0", b"GET /PYGOPHERD-HTTPPROTO-ICONS/ HTTP/1.0",
                 b"POST / HTTP/1.0", b"GET /umn?a?b?c HTTP/1.0", b"GET /% HTTP/1.0", b"GET /%ff%fe HTTP/1.1",
                 b"GET /wap HTTP/1.0", b"GET /wap/ HTTP/1.0", b"GET /wap/nope HTTP/1.0", b"GET /wapx HTTP/1.0",
                 b"GET /umn/ HTTP/1.0", b"GET umn HTTP/1.0", b"GET http://h/umn HTTP/1.0", b"GET /\t HTTP/1.0",
                 b"GET  /umn HTTP/1.0", b"GET /umn  HTTP/1.0", b"GET\t/umn\tHTTP/1.0", b" GET /umn HTTP/1.0", b"GET /umn HTTP/1.0 ",
                 b"GET /umn\tHTTP/1.0", b"HEAD  /umn/one.txt  HTTP/1.0"):
        for hdrs in (b"\r\n\r\n", b"\r\nAccept: text/html, text/vnd.wap.wml\r\nX-Wap-Profile: x\r\n\r\n",
                     b"\r\nNoColonLine\r\n: empty\r\nA:\r\n\r\n", b"\r\n"):
            for tls in (False, True):
                add("http-malformed", line + hdrs, tls)
    # request targets that a general URL parser reads differently from a plain split (network-location
    # syntax after a leading //, unbalanced brackets, user info, ports, parameters, fragments)
    for target in (b"//[", b"//[::1/umn/one.txt", b"//umn]/", b"//]", b"//[::1]/umn", b"//h/umn", b"//u:p@h:99999/umn", b"///umn",
                   b"/umn;params", b"/umn#frag", b"/umn/one.txt#x?y", b"//h:abc/", b"/\\umn", b"http://[::1/umn", b"http://[/",
                   b"*", b"/??", b"/umn?[", b"/[umn]", b"/umn/[one.txt", b"//[v1.x]/umn", b"//%5b/"):
        for method in (b"GET", b"HEAD"):
            for pre in (b"", b"/wap"):
                if pre and not target.startswith(b"/"):
                    continue
                for tls in (False, True):
                    add("http-target-url-syntax", method + b" " + pre + target + b" HTTP/1.0\r\nHost: " + H + b"\r\n\r\n", tls)
    for target in (b"//[", b"//[::1/umn", b"//umn]/", b"/umn;p", b"/umn#f", b"//h/umn", b"/[umn"):
        add("spartan-target-url-syntax", H + b" " + target + b" 0\r\n", False)
        add("gopher-target-url-syntax", target + b"\r\n", False)
        add("gopher-target-url-syntax", target + b"\t+\r\n", True)
    # Spartan malformations
    for line, body in ((b"h /a%0ab 0", b""), (b"h /a%0d%0a2 text/plain 0", b""), (b"h / 10", b"abc"),
                       (b"h / 3", b"abcdef"), (b"h  0", b""), (b"h / -1", b""), (b"h / 00", b""),
                       (b"h /% 0", b""), (b"h /umn/one.txt 3", b"\xff\xfe\x00"), (b"h umn 0", b""),
                       (b"h /umn 99999999999999999999", b""), (b"h /umn 1", b"\n"),
                       (b"h /umn " + b"9" * 4400, b""), (b"h /umn " + b"0" * 5000 + b"3", b"abc"), (b"h / " + b"1" * 100000, b""),
                       # separators that are not exactly one blank: detection and parsing must agree
                       (b"h  /umn 0", b""), (b"h\t/umn 0", b""), (b"h /umn  0", b""), (b"h /umn\t0", b""), (b" h /umn 0", b""),
                       (b"h /umn 0 ", b""), (b"h  /umn/one.txt  0", b""), (b"h\t/umn/one.txt\t0", b""), (b"h \t /umn 0", b""),
                       (b"h /umn 0\t", b""), (b"h /umn\x0b0", b""), (b"h\x0c/umn 0", b""), (b"h /umn 0\r", b"")):
        add("spartan-malformed", line + b"\r\n" + body, False)
        add("spartan-tls", line + b"\r\n" + body, True)
    # complete requests without any 'name: value' header line, from clients that keep the connection open
    for line in (b"GET / HTTP/1.0", b"GET /umn/one.txt HTTP/1.0", b"HEAD /umn HTTP/1.0", b"GET /nope HTTP/1.1", b"GET /wap/umn HTTP/1.0",
                 b"GET /umn?searchrequest=x HTTP/1.0"):
        for hdrs in (b"\r\n\r\n", b"\r\nnocolonline\r\n\r\n", b"\n\n", b"\r\n \r\n"):
            for tls in (False, True):
                add("keepopen:http-no-headers", line + hdrs, tls)
    for line in (b"/umn\r\n", b"/umn\t+\r\n", b"/umn/one.txt\t!\r\n", b"h /umn 0\r\n", b"h /umn 3\r\nabc", b"/nope\r\n", b"/umn\tq\r\n"):
        add("keepopen:one-line", line, False)
    add("keepopen:gemini", b"gemini://h/umn\r\n", True)
    for _ in range(120):
        add("random", reqs.random_line(rng), rng.random() < 0.4)
    add("empty-connection", b"", False)
    add("no-newline", b"/umn", False)
    add("lf-only", b"/umn\n", False)
    add("cr-in-selector", b"/um\rn\r\n", False)
    return out


class Runner:
    def __init__(self, chk: Check):
        self.chk = chk

    def judge(self, label: str, req: bytes, resp, expect: typing.Optional[sites.Obj] = None,
              view: typing.Optional[str] = None, ctx: str = "") -> typing.Optional[validate.Verdict]:
        chk = self.chk
        sample = {"class": label, "request": req[:200], "reply_head": resp.data[:120], "protocol": resp.protocol,
                  "log": resp.log[:3], "ctx": ctx}
        if resp.hung:
            chk.witness("C03/hang", sample)
            return None
        if resp.escaped:
            name, tb = resp.escaped[0]
            chk.witness("C03/escape:%s@%s" % (name, innermost_repo_frame(tb)), dict(sample, traceback=tb[-700:]))
            return None
        internal = [e for e in resp.exceptions() if not validate.is_io_error_name(e)]
        if internal:
            chk.witness("C03/internal:%s@%s" % (internal[0], innermost_repo_frame(resp.stderr)),
                        dict(sample, stderr=resp.stderr[-700:]))
            return None
        head = req.startswith(b"HEAD ")
        v = validate.validate(resp, req, head=head)
        fam = validate.FAMILY.get(resp.protocol or "", "none")
        if not v.ok:
            if resp.data == b"":
                chk.witness("C03/empty-reply:%s" % fam, sample)
            else:
                chk.witness("C03/malformed:%s" % slug(v.reason), dict(sample, reason=v.reason))
            return None
        if expect is not None:
            want = expect.kind
            got = v.klass
            okkinds = {"doc": ("doc", "headonly", "any"), "menu": ("menu", "headonly", "info", "any")}[want]
            if view == "gopherp!":
                okkinds = ("info",)
            if got not in okkinds:
                chk.witness("C03/wrong-kind:%s->%s:%s:%s" % (want, got, fam, "+".join(sorted(
                    t for t in expect.tags if ":" not in t))), sample)
                return None
        chk.case((label.split(":")[0], resp.protocol, (resp.protocol_handler() or (0, None))[1], v.klass), sample)
        return v


def run_site(chk: Check, sc: Scratch, idx: int, nhist: int, histlen: int) -> None:
    rng = chk.subrng("site", idx)
    model = sites.gen_site(rng, sc.path)
    root = sc.sub("root%d" % idx)
    model.tree.materialize(root)
    run = Runner(chk)

    def tree_snapshot():
        out = {}
        for dp, dn, fn in os.walk(os.fsencode(root)):
            for n in dn + fn:
                if n.startswith(b".cache.pygopherd"):
                    continue
                p = os.path.join(dp, n)
                try:
                    st = os.lstat(p)
                    out[p[len(root):]] = (st.st_mode, st.st_size if not os.path.isdir(p) else 0)
                except OSError:
                    pass
        return out

    pristine = tree_snapshot()
    for hl_name, hl in (("default", None), ("full", driver.HANDLERS_FULL_REWRITE)):
        full = hl is not None
        # the shipped configuration logs to syslog; the full handler list is run with the file logger
        site = driver.Site(root, handlers=hl, overrides={("handlers.dir.DirHandler", "cachetime"): "180",
                                                         ("logger", "logmethod"): "file" if full else "syslog"})
        try:
            # A: well-formed requests, pristine tree -> baselines
            driver.clean_server_files(root)
            baseline: typing.Dict[typing.Tuple[bytes, bool], bytes] = {}
            good: typing.List[typing.Tuple[str, bytes, bool, sites.Obj, str]] = []
            search_of: typing.Dict[bytes, bytes] = {}
            for o in model.objs:
                if o.needs_full and not full:
                    continue
                views = reqs.LISTING_VIEWS + ["gopherp!"] if o.kind == "menu" else reqs.DOC_VIEWS + ["gopherp!"]
                for view in views:
                    if reqs.VIEWS[view][0] in ("gopher", "gopherp") and reqs.gopher_ambiguous(o.selector):
                        chk.count("skipped_ambiguous_gopher_selector")
                        continue
                    data, tls = reqs.render(view, o.selector)
                    good.append(("good:" + view, data, tls, o, view))
                    if ("exec" in o.tags or "pyg" in o.tags) and view not in ("gopherp!", "httphead", "waphead"):
                        # the same script with a search string of its own, then without again
                        q = b"q-" + view.encode() + b"-%d" % len(good)
                        d2, _ = reqs.render(view, o.selector, q)
                        good.append(("good-search:" + view, d2, tls, o, view))
                        search_of[d2] = q
                        good.append(("good:" + view, data, tls, o, view))
            if full:
                # with url.URLTypeRewriter configured, a selector may carry a leading item-type component
                # ('/1/dir', '/0/dir/file'): the same object, any number of times in one process
                k = 0
                for o in model.objs:
                    if b"|" in o.selector or o.selector == b"/" or "exec" in o.tags or "pyg" in o.tags:
                        continue
                    k += 1
                    if k % 3:
                        continue
                    typed = (b"/1" if o.kind == "menu" else b"/0") + o.selector
                    for view in ("gopher", "http", "gemini", "gopherp+"):
                        if reqs.VIEWS[view][0] in ("gopher", "gopherp") and reqs.gopher_ambiguous(typed):
                            continue
                        data, tls = reqs.render(view, typed)
                        good.append(("good-typed:" + view, data, tls, o, view))
                        good.append(("good-typed:" + view, data, tls, o, view))
            for gi, (label, data, tls, o, view) in enumerate(good):
                driver.clean_server_files(root)
                # every third well-formed request comes from a client that keeps its side of the connection
                # open (as browsers do): the reply must not wait for an end-of-file (a handler stuck reading
                # is reported by the hang watchdog).  Spartan announces its body length, so it qualifies too.
                keep_open = gi % 3 == 0
                resp = site.request(data, tls=tls, half_close=not keep_open)
                if keep_open:
                    chk.count("requests_from_clients_that_keep_the_connection_open")
                v = run.judge(label, data, resp, expect=o, view=view, ctx=hl_name)
                if v is not None and ("exec" in o.tags or "pyg" in o.tags) and view not in ("gopherp!", "httphead", "waphead"):
                    # what the script / PYG module was handed must be this request's search string, nobody else's
                    from vf.checks import c06
                    echo = c06.extract_echo(view, resp, b"PYG SEARCH=" if "pyg" in o.tags else b"SEARCH=")
                    want = search_of.get(data, b"")
                    chk.count("script_search_echoes_checked")
                    if echo is not None and echo != want:
                        chk.witness("C03/handler-saw-another-requests-search-string", {
                            "request": data[:200], "sent": want, "handler_received": echo, "ctx": hl_name})
                        v = None
                if v is not None:
                    baseline[(data, tls)] = validate.normalize_ts(resp.data)
                    if gi % 4 == 1 and len(data) > 2:
                        # the same bytes arriving in two or three pieces are the same request
                        driver.clean_server_files(root)
                        cuts = sorted({rng.randrange(1, len(data)) for _ in range(rng.choice([1, 2]))})
                        r2 = site.request(data, tls=tls, segments=cuts)
                        chk.count("wellformed_requests_delivered_in_pieces")
                        if validate.normalize_ts(r2.data) != baseline[(data, tls)] or r2.escaped:
                            chk.witness("C03/reply-depends-on-how-the-request-bytes-were-segmented",
                                        {"request": data[:200], "cuts": cuts, "whole": baseline[(data, tls)][:200], "in_pieces": r2.data[:200],
                                         "log": r2.log[:3], "ctx": hl_name})
            chk.count("wellformed_requests", len(good))
            # B: hostile requests (each also on a pristine tree)
            hostile = hostile_requests(rng, model, full)
            for label, data, tls in hostile:
                resp = site.request(data, tls=tls, half_close=not label.startswith("keepopen:"))
                run.judge(label, data, resp, ctx=hl_name)
                chk.count("hostile_requests")
            # C: histories on one persistent tree
            keys = sorted(baseline)
            for h in range(nhist):
                hr = chk.subrng("hist", idx, hl_name, h)
                driver.clean_server_files(root)
                seq = [hr.choice(keys) for _ in range(histlen)]
                for step, (data, tls) in enumerate(seq):
                    # "whatever came before" includes other people's malformed and hostile requests
                    for _ in range(hr.choice([0, 0, 1, 2])):
                        hl_label, hdata, htls = hr.choice(hostile)
                        site.request(hdata, tls=htls, half_close=not hl_label.startswith("keepopen:"))
                        chk.count("hostile_requests_inside_histories")
                        seq[step] = (data, tls)
                        earlier_hostile = hdata
                    resp = site.request(data, tls=tls)
                    chk.count("history_requests")
                    got = validate.normalize_ts(resp.data)
                    if got != baseline[(data, tls)] or resp.escaped:
                        ph = resp.protocol_handler() or ("?", "?")
                        chk.witness("C03/history-dependent:%s/%s" % ph, {
                            "request": data[:200], "step": step, "earlier": [s[0][:80] for s in seq[:step]][-6:],
                            "baseline": baseline[(data, tls)][:300], "got": got[:300], "log": resp.log[:3],
                            "escaped": resp.escaped[:1]})
                        break
                else:
                    chk.case(("history", hl_name, len(set(seq))), None)
            # none of these requests writes: the served tree is what it was (the server's own cache files apart)
            now = tree_snapshot()
            if now != pristine:
                changed = sorted(k for k in set(now) | set(pristine) if now.get(k) != pristine.get(k))
                chk.witness("C03/read-only-requests-changed-the-served-tree", {"ctx": hl_name, "changed": changed[:8]})
                return
            chk.count("tree_snapshots_compared")
        finally:
            site.close()


def symlinked_directory(chk: Check, sc: Scratch) -> None:
    """A directory that is also reachable through a symbolic link inside the site: listing one name must not
    change what the other name's listing says (they share one directory on disk, hence one cache file)."""
    root = sc.sub("symdir")
    t = Tree().file("dir/a.txt", "a\n").file("dir/b.txt", "b\n").file("dir/sub/c.txt", "c\n")
    t.symlink("link", "dir")
    t.symlink("deep/er/link2", "../../dir")
    t.materialize(root)
    site = driver.Site(root, overrides={("handlers.dir.DirHandler", "cachetime"): "180"})
    try:
        names = [b"/dir", b"/link", b"/deep/er/link2"]
        alone = {}
        for sel in names:
            for view in ("gopher", "http", "gemini"):
                driver.clean_server_files(root)
                req, tls = reqs.render(view, sel)
                alone[(sel, view)] = validate.normalize_ts(site.request(req, tls=tls).data)
        driver.clean_server_files(root)
        import itertools
        for first, second in itertools.permutations(names, 2):
            for view in ("gopher", "http", "gemini"):
                driver.clean_server_files(root)
                site.request(reqs.render("gopher", first)[0])
                req, tls = reqs.render(view, second)
                got = validate.normalize_ts(site.request(req, tls=tls).data)
                chk.count("symlinked_directory_pairs")
                if got != alone[(second, view)]:
                    chk.witness("C03/directory-reached-through-a-symlink-shares-its-cache-file",
                                {"listed_first": first, "then": second, "view": view, "alone": alone[(second, view)][:200], "after": got[:200]})
                    return
                chk.case(("symlinked-directory", first, second, view), None)
    finally:
        site.close()


def stalled_requests(chk: Check, sc: Scratch) -> None:
    """A request that never ends (no line end, no blank line, a body shorter than announced) from a client that stays
    connected: the configured `timeout` bounds the wait, then what has arrived is answered.  Real server process, real
    sockets; the verdict is causal where it can be (a complete request on a second connection is answered meanwhile) and
    the deadline for the stalled one is ten times the configured timeout."""
    import socket
    import time
    from vf import spdriver
    root = sc.sub("stalled-root")
    Tree().file("small.txt", "small document\n").file("d/a.txt", "a\n").materialize(root)
    TIMEOUT = 2
    for servertype in ("ThreadingTCPServer", "ForkingTCPServer"):
        sp = spdriver.ServerProcess(conf_overrides={"timeout": str(TIMEOUT)}, root=root, servertype=servertype, tls=False,
                                    workdir=sc.sub("stalled-" + servertype[:4]), name="c03")
        sp.start()
        try:
            if not sp.wait_ready(30):
                chk.note_inconclusive("C03 server process did not become ready")
                return
            for label, partial in (("gopher selector without line end", b"/small.txt"),
                                   ("http request without the blank line", b"GET /small.txt HTTP/1.0\r\nHost: x\r\n"),
                                   ("spartan body shorter than announced", b"verif.example /small.txt 20\r\nabc"),
                                   ("nothing at all", b"")):
                s = socket.create_connection(("127.0.0.1", sp.port), timeout=10 * TIMEOUT + 10)
                t0 = time.monotonic()
                got, err = b"", None
                try:
                    if partial:
                        s.sendall(partial)
                    # meanwhile a complete request on another connection is answered at once
                    other = sp.request(b"/d/a.txt\r\n", timeout=20)
                    while True:
                        b = s.recv(65536)
                        if not b:
                            break
                        got += b
                except socket.timeout:
                    err = "no answer and no close within %d s (configured timeout: %d s)" % (10 * TIMEOUT + 10, TIMEOUT)
                except OSError as e:
                    err = None if got else "connection error %s" % type(e).__name__
                finally:
                    s.close()
                chk.count("stalled_requests")
                sample = {"servertype": servertype, "client": label, "sent": partial, "reply": got[:120], "configured_timeout_s": TIMEOUT,
                          "waited_s": round(time.monotonic() - t0, 1), "other_connection_answered": other == b"a\n"}
                if other != b"a\n":
                    chk.witness("C03/stalled-client-blocks-others:%s" % servertype, sample)
                    return
                if err:
                    chk.witness("C03/unterminated-request-never-answered", dict(sample, error=err))
                    return
                if partial.startswith((b"/small", b"GET")) and b"small document" not in got:
                    chk.witness("C03/unterminated-request-answered-wrongly", sample)
                    return
                chk.case(("stalled", servertype, label), sample)
        finally:
            sp.stop()
            sp.cleanup()


def main() -> int:
    chk = Check("C03", "exploration")
    quick = chk.tier == "quick"
    if not quick and chk.args.shard is None and not chk.replay_case:
        common.run_shards(chk, "vf.checks.c03", 16, timeout=2400)
    else:
        nsites = 2 if quick else 4
        with Scratch("c03") as sc:
            for i in range(nsites):
                run_site(chk, sc, i, nhist=10 if quick else 30, histlen=30)
            if quick or chk.args.shard == 0:
                symlinked_directory(chk, sc)
                stalled_requests(chk, sc)
    return chk.finish(
        rule="each case = one request sent over a real socket to the real connection handler; distinct "
             "non-trivial = distinct (request class, protocol class that answered, handler class, response "
             "class) with a syntactically validated reply; histories = sequences of 30 requests on one "
             "persistent tree (cache files accumulate) whose replies must equal the pristine-tree baseline "
             "modulo Last-Modified/Mod-Date",
        assumptions=["content is well-formed (generated by vf.sites)", "protocol that answered is read from the "
                     "multiplexer's return value, handler from the request log line",
                     "Gopher has no framing: document vs menu vs error is decided from the handler class logged",
                     "bounded time = handler returned within the 30 s watchdog; no latency bound claimed"])


if __name__ == "__main__":
    common.main_wrapper(main)
