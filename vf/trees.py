"""Content trees: specification objects that can be written to disk (and into ZIP
archives), and seeded generators for names, contents, sidecars, link files,
gophermaps, mailboxes, archives, scripts."""
from __future__ import annotations

import bz2
import gzip
import io
import mailbox
import os
import random
import stat
import typing
import zipfile

FIXED_MTIME = 1_600_000_000  # every generated file gets this mtime (+ small offsets)

B = typing.Union[str, bytes]


def tob(x: B) -> bytes:
    return x if isinstance(x, bytes) else x.encode("utf-8", "surrogateescape")


def tos(x: B) -> str:
    return x if isinstance(x, str) else x.decode("utf-8", "surrogateescape")


class Tree:
    """path (bytes, relative, '/'-separated) -> node"""

    def __init__(self):
        self.nodes: typing.Dict[bytes, dict] = {}

    # -- construction ------------------------------------------------------------------
    def _parents(self, path: bytes) -> None:
        parts = path.split(b"/")[:-1]
        cur = b""
        for p in parts:
            cur = p if not cur else cur + b"/" + p
            self.nodes.setdefault(cur, {"kind": "dir"})

    def file(self, path: B, data: B = b"", mode: int = 0o644, mtime: int = FIXED_MTIME) -> "Tree":
        path = tob(path).strip(b"/")
        self._parents(path)
        self.nodes[path] = {"kind": "file", "data": tob(data), "mode": mode, "mtime": mtime}
        return self

    def dir(self, path: B) -> "Tree":
        path = tob(path).strip(b"/")
        self._parents(path)
        self.nodes.setdefault(path, {"kind": "dir"})
        return self

    def symlink(self, path: B, target: B) -> "Tree":
        path = tob(path).strip(b"/")
        self._parents(path)
        self.nodes[path] = {"kind": "symlink", "target": tob(target)}
        return self

    def special(self, path: B, what: str) -> "Tree":
        path = tob(path).strip(b"/")
        self._parents(path)
        self.nodes[path] = {"kind": what}  # fifo | socket
        return self

    def subtree(self, prefix: B, other: "Tree") -> "Tree":
        prefix = tob(prefix).strip(b"/")
        self.dir(prefix)
        for p, n in other.nodes.items():
            self.nodes[prefix + b"/" + p] = dict(n)
        return self

    # -- queries -------------------------------------------------------------------------
    def files(self) -> typing.List[bytes]:
        return sorted(p for p, n in self.nodes.items() if n["kind"] == "file")

    def dirs(self) -> typing.List[bytes]:
        return sorted(p for p, n in self.nodes.items() if n["kind"] == "dir")

    def children(self, d: B) -> typing.List[bytes]:
        d = tob(d).strip(b"/")
        out = []
        for p in self.nodes:
            if d == b"":
                if b"/" not in p:
                    out.append(p)
            elif p.startswith(d + b"/") and b"/" not in p[len(d) + 1:]:
                out.append(p[len(d) + 1:])
        return sorted(out)

    def spec(self) -> dict:
        """A JSON-able description (for replay files and samples)."""
        out = {}
        for p, n in sorted(self.nodes.items()):
            k = p.decode("latin-1")
            if n["kind"] == "file":
                d = n["data"]
                out[k] = {"file": len(d), "head": d[:40].decode("latin-1"), "mode": oct(n["mode"])}
            elif n["kind"] == "symlink":
                out[k] = {"symlink": n["target"].decode("latin-1")}
            else:
                out[k] = n["kind"]
        return out

    # -- output --------------------------------------------------------------------------
    def materialize(self, root: B) -> None:
        root = tob(root)
        os.makedirs(root, exist_ok=True)
        order = sorted(self.nodes.items(), key=lambda kv: (kv[0].count(b"/"), kv[0]))
        for p, n in order:
            full = os.path.join(root, p)
            k = n["kind"]
            if k == "dir":
                os.makedirs(full, exist_ok=True)
            elif k == "file":
                os.makedirs(os.path.dirname(full), exist_ok=True)
                with open(full, "wb") as fp:
                    fp.write(n["data"])
                os.chmod(full, n["mode"])
                os.utime(full, (n["mtime"], n["mtime"]))
            elif k == "symlink":
                os.symlink(n["target"], full)
            elif k == "fifo":
                os.mkfifo(full)
            elif k == "socket":
                import socket

                s = socket.socket(socket.AF_UNIX)
                cwd = os.getcwd()
                try:
                    os.chdir(os.path.dirname(full))  # AF_UNIX paths are short
                    s.bind(os.path.basename(full))
                finally:
                    os.chdir(cwd)
                    s.close()
        # directories last, deepest first, so their mtimes are fixed too
        for p, n in sorted(self.nodes.items(), key=lambda kv: -kv[0].count(b"/")):
            if n["kind"] == "dir":
                os.utime(os.path.join(root, p), (FIXED_MTIME, FIXED_MTIME))
        os.utime(root, (FIXED_MTIME, FIXED_MTIME))

    def to_zip(self, explicit_dirs: bool = True, date_time=(2020, 9, 13, 12, 26, 40),
               omit_dirs: typing.Sequence[bytes] = (), date_for=None) -> bytes:
        """Archive of this tree.  Symlinks become symlink members.  Names that are valid
        UTF-8 are stored as such (zipfile sets the UTF-8 flag for non-ASCII ones); other
        byte strings are stored raw without the flag, the way zip(1) does on POSIX (done by
        writing an ASCII placeholder of the same length and patching the archive)."""
        bio = io.BytesIO()
        patches: typing.List[typing.Tuple[bytes, bytes]] = []
        counter = [0]

        def zname(p: bytes, suffix: bytes = b"") -> str:
            raw = p + suffix
            try:
                return raw.decode("utf-8")
            except UnicodeDecodeError:
                counter[0] += 1
                tok = (b"ZQ%05d" % counter[0]).ljust(len(raw), b"_")
                if len(tok) != len(raw):
                    raise ValueError("raw member name too short to patch: %r" % raw)
                patches.append((tok, raw))
                return tok.decode("ascii")

        default_date = date_time
        with zipfile.ZipFile(bio, "w", zipfile.ZIP_DEFLATED) as z:
            for p, n in sorted(self.nodes.items()):
                date_time = date_for(p) if date_for else default_date
                if n["kind"] == "dir":
                    if explicit_dirs and p not in omit_dirs:
                        zi = zipfile.ZipInfo(zname(p, b"/"), date_time)
                        zi.external_attr = (0o40755 << 16) | 0x10
                        z.writestr(zi, b"")
                elif n["kind"] == "file":
                    zi = zipfile.ZipInfo(zname(p), date_time)
                    zi.external_attr = (stat.S_IFREG | n["mode"]) << 16
                    zi.compress_type = zipfile.ZIP_DEFLATED
                    z.writestr(zi, n["data"])
                elif n["kind"] == "symlink":
                    zi = zipfile.ZipInfo(zname(p), date_time)
                    zi.external_attr = (stat.S_IFLNK | 0o777) << 16
                    z.writestr(zi, n["target"])
        data = bio.getvalue()
        for tok, raw in patches:
            if data.count(tok) != 2:
                raise ValueError("placeholder %r occurs %d times" % (tok, data.count(tok)))
            data = data.replace(tok, raw)
        return data


def _zipname(p: bytes) -> typing.Optional[str]:
    """zipfile stores str names: ASCII and valid UTF-8 are expressible directly;
    other byte strings are expressed through cp437 (what zip(1) would store raw)."""
    try:
        return p.decode("utf-8")
    except UnicodeDecodeError:
        try:
            return p.decode("cp437")
        except UnicodeDecodeError:
            return None


# ---------------------------------------------------------------------------- names
RESERVED = "?#%&+;=:@\"'<>|~"
SAFE_WORDS = ["alpha", "beta", "gamma", "delta", "notes", "paper", "index", "data", "Read Me",
              "report 2020", "x", "y2", "Zed", "item"]
EXTS = [".txt", ".html", ".gif", ".jpg", ".png", ".pdf", ".mp3", ".qqq", "", ".c", ".css",
        ".hqx", ".ps"]


def name_plain(rng: random.Random) -> str:
    return rng.choice(SAFE_WORDS).replace(" ", "") + str(rng.randrange(100))


def name_spaces(rng: random.Random) -> str:
    return rng.choice(["Read Me", "report 2020", "a b  c", "my file"]) + " " + str(rng.randrange(100))


def name_reserved(rng: random.Random, chars: str = RESERVED) -> str:
    c = rng.choice(chars)
    c2 = rng.choice(chars)
    return "%s%s%s%s%d" % (rng.choice(["q", "it", "w"]), c, rng.choice(["u", "em", ""]), c2,
                           rng.randrange(100))


def name_nonutf8(rng: random.Random) -> bytes:
    return rng.choice([b"caf\xe9", b"\xae", b"na\xefve\xff", b"\xc3(", b"\x80x"]) + \
        str(rng.randrange(100)).encode()


def name_unicode(rng: random.Random) -> str:
    return rng.choice(["café", "日本", "naïve", "αβ"]) + str(rng.randrange(100))


def gen_name(rng: random.Random, classes=("plain", "spaces", "reserved", "nonutf8", "unicode"),
             ext: typing.Optional[str] = None) -> typing.Tuple[bytes, str]:
    """-> (name bytes, class)"""
    cls = rng.choice(list(classes))
    if cls == "plain":
        n = tob(name_plain(rng))
    elif cls == "spaces":
        n = tob(name_spaces(rng))
    elif cls == "reserved":
        n = tob(name_reserved(rng))
    elif cls == "nonutf8":
        n = name_nonutf8(rng)
    else:
        n = tob(name_unicode(rng))
    if ext is None:
        ext = rng.choice(EXTS)
    return n + tob(ext), cls


# -------------------------------------------------------------------------- contents
SIZE_CLASSES_QUICK = [0, 1, 5, 4095, 4096, 4097, 8191, 8192, 8193, 12288, 65535, 65536, 65537]
SIZE_CLASSES_THOROUGH = SIZE_CLASSES_QUICK + [16384, 16385, 20480, 20481, 40960, 131072, 131073,
                                              1048575, 1048576, 1048577]


def gen_content(rng: random.Random, size: int, cls: str) -> bytes:
    if size == 0:
        return b""
    if cls == "text":
        words = [b"gopher", b"menu", b"the", b"quick", b"brown", b"fox", b"&", b"<tag>", b"a\tb"]
        out = bytearray()
        while len(out) < size:
            out += rng.choice(words)
            out += rng.choice([b" ", b" ", b"\n", b" "])
        return bytes(out[:size])
    if cls == "crlf":
        out = bytearray()
        while len(out) < size:
            out += b"line %d" % rng.randrange(1000)
            out += rng.choice([b"\r\n", b"\n", b"\r", b"\n\n", b"\r\n\r\n", b" \n", b"\t\n"])
        return bytes(out[:size])
    if cls == "binary":
        return _binary(rng, size)
    if cls == "badutf8":
        out = bytearray()
        while len(out) < size:
            out += rng.choice([b"ok ", b"\xff\xfe", b"\xc3", b"caf\xe9\n", b"\xe2\x82", b"\n"])
        return bytes(out[:size])
    if cls == "dots":  # lines consisting of dots: Gopher text terminator look-alikes
        out = bytearray()
        while len(out) < size:
            out += rng.choice([b".\r\n", b"..\n", b".\n", b"x\n", b"+INFO: fake\r\n", b"+-1\r\n"])
        return bytes(out[:size])
    if cls == "magic":
        # ordinary documents whose first line looks like the signature some handler sniffs for: prose that begins
        # with "From " (no mbox envelope: no weekday/month/day/time), archive and compression magic, a script line
        first = rng.choice([b"From the minutes of the general meeting, June 2019\n", b"From here on, everything changed in 1999 again\n",
                            b"From: someone@example.org 2020\n", b"From me to you 12 2001 +0000\n", b"From  2019\n",
                            b"PK\x03\x04 is how archives start\n", b"\x1f\x8b\x08 gzip magic in a text\n", b"#!/bin/sh\necho not run\n",
                            b"<html><title>Not a page</title>\n", b"BZh91AY&SY bzip2 magic\n", b"Name=looks like a link file\nPath=/x\n"])
        out = bytearray(first)
        while len(out) < size:
            out += rng.choice([b"more prose ", b"\n", b"From time to time\n"])
        return bytes(out[:max(size, 1)])[:size]
    raise ValueError(cls)


def _binary(rng: random.Random, size: int) -> bytes:
    block = bytes(rng.getrandbits(8) for _ in range(min(size, 1024)))
    reps = size // len(block) + 1
    return (block * reps)[:size]


CONTENT_CLASSES = ["text", "crlf", "binary", "badutf8", "dots", "magic"]


def html_doc(title: typing.Optional[str], body: str = "<p>body</p>") -> bytes:
    t = "<title>%s</title>" % title if title is not None else ""
    return tob("<html><head>%s</head><body>%s</body></html>\n" % (t, body))


# ------------------------------------------------------------------------- mailboxes
def make_mbox(subjects: typing.List[str], root_scratch: str, bodies: typing.Optional[typing.List[str]] = None
              ) -> bytes:
    """An mbox file with one message per subject (synthesised with the stdlib)."""
    path = os.path.join(root_scratch, "tmp-%d.mbox" % random.getrandbits(40))
    mb = mailbox.mbox(path, create=True)
    try:
        for i, s in enumerate(subjects):
            m = mailbox.mboxMessage()
            m.set_from("author@example.org", (2020, 9, 13, 12, 26, 40, 6, 257, 0))
            m["From"] = "author%d@example.org" % i
            m["To"] = "list@example.org"
            if s is not None:
                m["Subject"] = s
            m["Date"] = "Sun, 13 Sep 2020 12:26:40 +0000"
            m.set_payload((bodies[i] if bodies else "body of message %d\nsecond line\n" % (i + 1)))
            mb.add(m)
        mb.flush()
    finally:
        mb.close()
    with open(path, "rb") as fp:
        data = fp.read()
    os.unlink(path)
    return data


def maildir_tree(subjects: typing.List[str], where: str = "cur") -> Tree:
    t = Tree()
    for d in ("cur", "new", "tmp"):
        t.dir(d)
    for i, s in enumerate(subjects):
        msg = ("From: author%d@example.org\nTo: list@example.org\nSubject: %s\n"
               "Date: Sun, 13 Sep 2020 12:26:40 +0000\n\nmaildir body %d\n" % (i, s, i + 1))
        sub = where if isinstance(where, str) else where[i % len(where)]
        fn = "16000000%02d.M%dP1.host" % (i, i) + (":2,S" if sub == "cur" else "")
        t.file(sub + "/" + fn, msg)
    return t


# ---------------------------------------------------------------------- compression
def gz(data: bytes) -> bytes:
    bio = io.BytesIO()
    with gzip.GzipFile(fileobj=bio, mode="wb", mtime=0) as g:
        g.write(data)
    return bio.getvalue()


def bz(data: bytes) -> bytes:
    return bz2.compress(data)


# ---------------------------------------------------------------------------- scripts
def script_echo_env() -> bytes:
    return (b"#!/bin/sh\n"
            b"printf 'SEL=%s\\n' \"$SELECTOR\"\n"
            b"printf 'REQ=%s\\n' \"$REQUEST\"\n"
            b"printf 'SEARCH=[%s]\\n' \"$SEARCHREQUEST\"\n"
            b"printf 'ARGS=%s\\n' \"$*\"\n")


def pyg_echo() -> bytes:
    return (b"from pygopherd.handlers.pyg import PYGBase\n"
            b"from pygopherd.gopherentry import GopherEntry\n"
            b"class PYGMain(PYGBase):\n"
            b"    def canhandlerequest(self):\n"
            b"        return True\n"
            b"    def getentry(self):\n"
            b"        e = GopherEntry(self.selector, self.config)\n"
            b"        e.settype('0'); e.setmimetype('text/plain'); e.setname('pyg')\n"
            b"        e.setgopherpsupport(0)\n"
            b"        return e\n"
            b"    def isdir(self):\n"
            b"        return False\n"
            b"    def write(self, wfile):\n"
            b"        s = self.searchrequest or ''\n"
            b"        wfile.write(('PYG SEARCH=[%s]\\n' % s).encode(errors='surrogateescape'))\n")
