"""M-AUD: file-system and process effects observed from inside CPython.

sys.addaudithook gives open / listdir / scandir / mkdir / rmdir / remove / rename /
symlink / truncate / chdir / chmod / utime / exec / posix_spawn / fork /
subprocess.Popen / shutil.* / glob.glob / exec / compile.  There are no audit events
for stat / lstat / access / readlink, so those four are interposed as module
attributes of `os` (os.path.* goes through them)."""
from __future__ import annotations

import os
import sys
import threading
import typing

PATH_EVENTS = {
    "open": (0,), "os.listdir": (0,), "os.scandir": (0,), "os.mkdir": (0,), "os.rmdir": (0,), "os.remove": (0,),
    "os.rename": (0, 1), "os.link": (0, 1), "os.symlink": (1,), "os.truncate": (0,), "os.chdir": (0,),
    "os.chmod": (0,), "os.chown": (0,), "os.utime": (0,), "os.exec": (0,), "os.posix_spawn": (0,),
    "shutil.copyfile": (0, 1), "shutil.copytree": (0, 1), "shutil.move": (0, 1), "shutil.rmtree": (0,),
    "glob.glob": (0,), "os.mkfifo": (0,), "os.walk": (0,),
}
OTHER_EVENTS = {"subprocess.Popen", "os.fork", "os.forkpty", "os.system", "exec", "compile", "import"}


class Event:
    __slots__ = ("name", "paths", "detail", "from_import", "cwd")

    def __init__(self, name, paths, detail, from_import, cwd):
        self.name, self.paths, self.detail, self.from_import, self.cwd = name, paths, detail, from_import, cwd

    def __repr__(self):
        return "Event(%s %r %s)" % (self.name, self.paths, self.detail if self.detail else "")


class Recorder:
    def __init__(self):
        self.enabled = False
        self.events: typing.List[Event] = []
        self.lock = threading.Lock()
        self.installed = False
        self._in_hook = threading.local()
        self.real = {}

    # ---------------------------------------------------------------------------------
    def install(self) -> None:
        if self.installed:
            return
        self.installed = True
        sys.addaudithook(self._hook)
        for fn in ("stat", "lstat", "access", "readlink"):
            self.real[fn] = getattr(os, fn)
            setattr(os, fn, self._wrap(fn))

    def _wrap(self, fn: str):
        real = self.real[fn]

        def wrapper(path, *a, **kw):
            if self.enabled and not getattr(self._in_hook, "v", False) and not isinstance(path, int):
                self._record("os." + fn, [path], None)
            return real(path, *a, **kw)

        wrapper.__name__ = fn
        return wrapper

    def _from_import(self) -> bool:
        f = sys._getframe(2)
        n = 0
        while f is not None and n < 60:
            fn = f.f_code.co_filename
            if "importlib" in fn and "_bootstrap" in fn:
                return True
            if fn.endswith(("linecache.py", "traceback.py", "tokenize.py")):
                return True
            f = f.f_back
            n += 1
        return False

    def _record(self, name, paths, detail) -> None:
        self._in_hook.v = True
        try:
            try:
                cwd = os.getcwd()
            except OSError:
                cwd = "?"
            res = []
            for p in paths:
                if isinstance(p, int) or p is None:
                    continue
                try:
                    ps = os.fsdecode(p)
                except Exception:
                    ps = repr(p)
                if not ps.startswith("/"):
                    ps = os.path.join(cwd, ps)
                # lexical normalisation: '<root>/../x' is not under the root
                res.append(os.path.normpath(ps))
            ev = Event(name, res, detail, self._from_import(), cwd)
            with self.lock:
                self.events.append(ev)
        finally:
            self._in_hook.v = False

    def _hook(self, name, args) -> None:
        if not self.enabled or getattr(self._in_hook, "v", False):
            return
        if name in PATH_EVENTS:
            idx = PATH_EVENTS[name]
            self._record(name, [args[i] for i in idx if i < len(args)], args[1] if name == "open" and len(args) > 1 else None)
        elif name == "subprocess.Popen":
            exe = args[0]
            argv = args[1]
            cwd = args[2] if len(args) > 2 else None
            self._record(name, [exe] if isinstance(exe, (str, bytes)) and os.sep in os.fsdecode(exe) else [],
                         {"argv": [os.fsdecode(a) if isinstance(a, (str, bytes)) else repr(a) for a in (argv or [])][:6],
                          "cwd": cwd})
        elif name in ("os.fork", "os.forkpty", "os.system"):
            self._record(name, [], repr(args)[:100])
        elif name in ("exec", "compile"):
            # code objects: remember the file name they claim
            fn = None
            try:
                if name == "exec":
                    fn = args[0].co_filename
                else:
                    fn = args[1]
            except Exception:
                pass
            if fn is not None:
                if isinstance(fn, bytes):
                    fn = fn.decode(errors="replace")
                self._record(name, [], {"filename": str(fn)})

    # ---------------------------------------------------------------------------------
    def start(self) -> None:
        self.install()
        with self.lock:
            self.events = []
        self.enabled = True

    def stop(self) -> typing.List[Event]:
        self.enabled = False
        with self.lock:
            ev, self.events = self.events, []
        return ev


RECORDER = Recorder()


def under(path: str, root: str) -> bool:
    root = root.rstrip("/")
    return path == root or path.startswith(root + "/")


METADATA_PROBES = {"os.stat", "os.lstat", "os.access", "os.readlink"}


def classify_outside(events: typing.List[Event], root: str, allowed_prefixes: typing.Sequence[str],
                     allowed_exact: typing.Sequence[str] = (), probes: typing.Optional[typing.List[Event]] = None
                     ) -> typing.List[Event]:
    """Events touching a path that is neither inside `root`, nor under an allowed prefix
    (the interpreter, the repository, /verif: the server's own code), nor made by the
    import machinery."""
    bad = []
    for ev in events:
        if ev.from_import:
            continue
        for p in ev.paths:
            if under(p, root):
                continue
            if any(under(p, a) for a in allowed_prefixes) or p in allowed_exact:
                continue
            if ev.name in METADATA_PROBES:
                # a stat/access/readlink neither opens, reads, lists nor runs anything; whether its
                # *result* is revealed is decided by comparing replies between outside worlds
                if probes is not None:
                    probes.append(ev)
                break
            bad.append(ev)
            break
    return bad
