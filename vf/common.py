"""Verdicts, evidence files, known findings, replay files, scratch directories."""
from __future__ import annotations

import argparse
import hashlib
import json
import os
import random
import shutil
import sys
import tempfile
import time
import traceback
import typing

from vf import REPO, VERIF

EVIDENCE_DIR = os.path.join(VERIF, "evidence")
REPLAY_DIR = os.path.join(VERIF, "replays")
KNOWN_FINDINGS = os.path.join(VERIF, "known_findings.json")


def jsonable(obj: typing.Any, depth: int = 0) -> typing.Any:
    """Best-effort conversion of anything (bytes, sets, tuples) to JSON."""
    if depth > 8:
        return repr(obj)[:200]
    if isinstance(obj, (str, int, float, bool)) or obj is None:
        if isinstance(obj, str):
            # lone surrogates are not valid JSON text for every consumer
            return obj.encode("utf-8", "backslashreplace").decode("utf-8")
        return obj
    if isinstance(obj, (bytes, bytearray)):
        b = bytes(obj)
        s = b[:400].decode("latin-1").encode("unicode_escape").decode("ascii")
        if len(b) > 400:
            s += "...(%d bytes)" % len(b)
        return s
    if isinstance(obj, dict):
        return {str(jsonable(k, depth + 1)): jsonable(v, depth + 1) for k, v in obj.items()}
    if isinstance(obj, (list, tuple, set, frozenset)):
        seq = list(obj)
        if isinstance(obj, (set, frozenset)):
            seq = sorted(seq, key=repr)
        return [jsonable(x, depth + 1) for x in seq]
    return repr(obj)[:300]


def load_known() -> typing.List[dict]:
    if not os.path.exists(KNOWN_FINDINGS):
        return []
    with open(KNOWN_FINDINGS) as fp:
        return json.load(fp).get("findings", [])


_LIVE_SCRATCH: typing.List["Scratch"] = []


class Scratch:
    """A scratch directory outside /repo and /verif, removed on exit."""

    def __init__(self, tag: str):
        _LIVE_SCRATCH.append(self)
        # a base every user may pass through (servers under test drop to 'nobody' and must still reach their root)
        base = None
        for cand in (os.environ.get("VERIF_SCRATCH"), "/var/tmp", "/tmp"):
            if not cand:
                continue
            try:
                os.makedirs(cand, exist_ok=True)
                p, ok = cand, os.access(cand, os.W_OK)
                while ok and p != "/":
                    ok = bool(os.stat(p).st_mode & 0o001)
                    p = os.path.dirname(p)
                if ok:
                    base = cand
                    break
            except OSError:
                continue
        if base is None:
            base = os.environ.get("VERIF_SCRATCH") or "/var/tmp"
        self.path = tempfile.mkdtemp(prefix="vf-%s-" % tag, dir=base)

    def sub(self, name: str) -> str:
        p = os.path.join(self.path, name)
        os.makedirs(p, exist_ok=True)
        return p

    def cleanup(self) -> None:
        def onerr(func, path, exc):
            # make an unreadable piece of the scratch tree removable -- never touching anything outside it
            try:
                parent = os.path.dirname(path)
                if os.path.commonpath([os.path.realpath(parent), os.path.realpath(self.path)]) == os.path.realpath(self.path):
                    os.chmod(parent, 0o700)
                if path != self.path:
                    os.chmod(path, 0o700)
                func(path)
            except (OSError, ValueError):
                pass

        shutil.rmtree(self.path, onerror=onerr)

    def __enter__(self) -> "Scratch":
        return self

    def __exit__(self, *a) -> None:
        self.cleanup()


class Check:
    """One run of one property's check.

    witness(key, detail)      a violation whose *mechanism* is `key`
    note_inconclusive(reason) a deciding monitor did not observe enough
    case(signature)           counts evaluations and distinct non-trivial cases
    finish(...)               writes the evidence file, prints the verdict lines
    """

    def __init__(self, pid: str, level: str, argv: typing.Optional[typing.List[str]] = None):
        ap = argparse.ArgumentParser(prog="check " + pid)
        ap.add_argument("--tier", default=os.environ.get("VERIF_TIER", "quick"),
                        choices=["quick", "thorough"])
        ap.add_argument("--seed", type=int, default=None)
        ap.add_argument("--replay", default=None)
        ap.add_argument("--shard", type=int, default=None,
                        help="internal: run one shard of the thorough tier")
        ap.add_argument("--no-evidence", action="store_true")
        self.args = ap.parse_args(argv)
        self.pid = pid
        self.level = level
        self.tier = self.args.tier
        seed = self.args.seed
        if seed is None:
            try:
                seed = int(os.environ.get("VERIF_SEED", "0"))
            except ValueError:
                seed = 0
        self.seed = seed
        self.replay_case = None
        if self.args.replay:
            with open(self.args.replay) as fp:
                self.replay_case = json.load(fp)
            self.seed = self.replay_case.get("seed", self.seed)
            self.tier = self.replay_case.get("tier", self.tier)
        self.rng = random.Random("%s/%s/%d" % (pid, self.tier, self.seed))
        self.t0 = time.time()
        self.evaluations = 0
        self.signatures: typing.Set[typing.Any] = set()
        self.samples: typing.List[typing.Any] = []
        self.witnesses: typing.Dict[str, typing.List[dict]] = {}
        self.inconclusive: typing.List[str] = []
        self.counters: typing.Dict[str, int] = {}
        self.known = [k for k in load_known() if k.get("property") == pid]
        import threading
        self._lock = threading.RLock()   # checks may report from several harness threads

        self._register_hang_reporter()

    def _register_hang_reporter(self) -> None:
        """A connection handler that never returns is a violation of 'bounded time'
        (and makes every other verdict of the run impossible): report it and exit 1."""
        try:
            from vf import driver
        except Exception:
            return

        def report(desc, stack):
            import re as _re

            frames = _re.findall(r'File "([^"]+)", line \d+, in (\S+)', stack)
            where = "?"
            for f, fn in reversed(frames):
                if "/pygopherd/" in f or "/simpletal/" in f:
                    where = "%s:%s" % (f.rsplit("/", 1)[-1], fn)
                    break
            key = "%s/request-never-returns@%s" % (self.pid, where)
            self.witness(key, {"request": desc, "stack": stack[-1500:]})
            try:
                self.finish(rule="run aborted: a request did not return within the hang watchdog's limit",
                            assumptions=["watchdog limit %s s" % driver.WATCHDOG.limit], min_distinct=0)
            except Exception:
                print("VIOLATION property=%s replay=%s" % (self.pid, "(none)"))
            for sc in list(_LIVE_SCRATCH):
                try:
                    sc.cleanup()
                except Exception:
                    pass

        driver.WATCHDOG.reporter = report

    # ---- bookkeeping -------------------------------------------------------------
    def subrng(self, *tag) -> random.Random:
        return random.Random("%s/%s/%d/%s" % (self.pid, self.tier, self.seed, "/".join(map(str, tag))))

    def count(self, name: str, n: int = 1) -> None:
        with self._lock:
            self.counters[name] = self.counters.get(name, 0) + n

    def case(self, signature: typing.Any = None, sample: typing.Any = None) -> None:
        """One evaluated case; `signature` (hashable) identifies distinct non-trivial
        cases (None = trivial, not counted)."""
        with self._lock:
            self.evaluations += 1
            if signature is not None:
                self.signatures.add(signature)
            if sample is not None and len(self.samples) < 8:
                self.samples.append(jsonable(sample))

    def add_sample(self, sample: typing.Any, limit: int = 8) -> None:
        if len(self.samples) < limit:
            self.samples.append(jsonable(sample))

    def witness(self, key: str, detail: typing.Any) -> None:
        """Record a violation. `key` names the mechanism (call site / input class)."""
        with self._lock:
            lst = self.witnesses.setdefault(key, [])
            if len(lst) < 5:
                lst.append(jsonable(detail))
            self.count("witness:" + key)

    def note_inconclusive(self, reason: str) -> None:
        if reason not in self.inconclusive:
            self.inconclusive.append(reason)

    # ---- verdict -------------------------------------------------------------------
    def _write_replay(self, key: str, details: typing.List[dict]) -> str:
        os.makedirs(REPLAY_DIR, exist_ok=True)
        h = hashlib.sha1(("%s|%s" % (self.pid, key)).encode()).hexdigest()[:10]
        path = os.path.join(REPLAY_DIR, "%s-%s.json" % (self.pid, h))
        with open(path, "w") as fp:
            json.dump({"property": self.pid, "key": key, "seed": self.seed, "tier": self.tier,
                       "repo": REPO, "witnesses": details}, fp, indent=1)
        return path

    def finish(self, rule: str, assumptions: typing.Optional[typing.List[str]] = None,
               extra: typing.Optional[dict] = None, exhaustive: bool = False,
               min_distinct: int = 2) -> int:
        wall = time.time() - self.t0
        known_keys = {k["key"]: k for k in self.known if k.get("status") == "known"}
        lines = []
        nviol = 0
        known_seen = []
        for key, details in sorted(self.witnesses.items()):
            if key in known_keys:
                known_seen.append(key)
                lines.append("KNOWN-FINDING: property=%s %s -- %s" % (
                    self.pid, key, known_keys[key].get("what_fails", "")))
            else:
                nviol += 1
                path = self._write_replay(key, details)
                lines.append("VIOLATION property=%s replay=%s" % (self.pid, path))
                lines.append("  mechanism=%s first_witness=%s" % (
                    key, json.dumps(details[0])[:1500]))
        distinct = len(self.signatures)
        if nviol == 0 and (self.evaluations == 0 or distinct < min_distinct):
            self.note_inconclusive("observed too little: evaluations=%d distinct=%d (< %d)" % (
                self.evaluations, distinct, min_distinct))
        coverage = {
            "evaluations": self.evaluations,
            "distinct_nontrivial": distinct,
            "rule": rule,
            "samples": self.samples or ["(none)"],
            "counters": dict(sorted(self.counters.items())),
            "known_findings_seen": known_seen,
            "inconclusive": self.inconclusive,
        }
        if exhaustive:
            coverage["exhaustive"] = True
        if extra:
            coverage.update(jsonable(extra))
        ev = {
            "property_id": self.pid,
            "tier": self.tier,
            "seed": self.seed,
            "level": self.level,
            "coverage": coverage,
            "assumptions": assumptions or [],
            "wall_s": round(wall, 2),
            "violations": nviol,
        }
        if not self.args.no_evidence and self.args.shard is None and not self.args.replay:
            os.makedirs(EVIDENCE_DIR, exist_ok=True)
            tmp = os.path.join(EVIDENCE_DIR, ".%s.json.tmp" % self.pid)
            with open(tmp, "w") as fp:
                json.dump(ev, fp, indent=1)
            os.replace(tmp, os.path.join(EVIDENCE_DIR, "%s.json" % self.pid))
        if self.args.shard is not None:
            # a shard reports to its parent on stdout as one JSON line
            print("SHARD-RESULT " + json.dumps({
                "evaluations": self.evaluations,
                "signatures": sorted(repr(s) for s in self.signatures),
                "samples": self.samples[:3], "counters": self.counters,
                "witnesses": self.witnesses, "inconclusive": self.inconclusive}))
            return 0
        for ln in lines:
            print(ln)
        print("%s tier=%s seed=%d evaluations=%d distinct_nontrivial=%d violations=%d known=%d wall=%.1fs" % (
            self.pid, self.tier, self.seed, self.evaluations, distinct, nviol, len(known_seen), wall))
        if self.counters:
            print("  counters: " + json.dumps(dict(sorted(self.counters.items()))))
        if nviol:
            return 1
        if self.inconclusive:
            for r in self.inconclusive:
                print("INCONCLUSIVE property=%s reason=%s" % (self.pid, r))
            return 2
        return 0

    # ---- sharding (thorough tier) --------------------------------------------------
    def merge_shard(self, res: dict) -> None:
        self.evaluations += res["evaluations"]
        self.signatures.update(res["signatures"])
        for s in res["samples"]:
            self.add_sample(s)
        for k, v in res["counters"].items():
            self.count(k, v)
        for k, lst in res["witnesses"].items():
            for d in lst:
                self.witness(k, d)
            # witness() counted them once more than the shard did; fix the counter
            self.counters["witness:" + k] -= len(lst)
        for r in res["inconclusive"]:
            self.note_inconclusive(r)


def run_shards(chk: Check, module: str, nshards: int, timeout: int = 3600,
               par: int = 16) -> None:
    """Run `python -m vf.checks.<module> --shard i` for i in range(nshards), in
    parallel (one subprocess each, never multiprocessing.Pool) and merge."""
    import subprocess
    from concurrent.futures import ThreadPoolExecutor

    def one(i: int):
        cmd = [sys.executable, "-m", module, "--tier", chk.tier, "--seed",
               str(chk.seed * 1000 + i), "--shard", str(i)]
        try:
            p = subprocess.run(cmd, cwd=VERIF, capture_output=True, timeout=timeout)
        except subprocess.TimeoutExpired:
            return i, None, "timeout"
        out = p.stdout.decode(errors="replace")
        for ln in out.splitlines():
            if ln.startswith("SHARD-RESULT "):
                return i, json.loads(ln[len("SHARD-RESULT "):]), None
        return i, None, "no result (rc=%s): %s" % (p.returncode, (out + p.stderr.decode(errors="replace"))[-600:])

    with ThreadPoolExecutor(max_workers=par) as ex:
        for i, res, err in ex.map(one, range(nshards)):
            if res is None:
                chk.note_inconclusive("shard %d: %s" % (i, err))
            else:
                chk.merge_shard(res)
                chk.count("shards_merged")


def main_wrapper(fn: typing.Callable[[], int]) -> None:
    try:
        rc = fn()
    except SystemExit:
        raise
    except BaseException:
        traceback.print_exc()
        print("INCONCLUSIVE reason=harness-crashed")
        rc = 2
    sys.stdout.flush()
    sys.exit(rc)
