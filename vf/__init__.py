"""Runtime-monitoring framework for the pygopherd properties (see /verif/DESIGN.md).

Importing this package puts the repository under test on sys.path.  The tree that
is exercised is $VF_REPO (default /repo): always the *working tree*, never a copy
made by the framework, so a check run after an edit of /repo sees the edit.
"""
import os
import sys

REPO = os.environ.get("VF_REPO", "/repo")
VERIF = os.path.dirname(os.path.dirname(os.path.abspath(__file__)))

if REPO not in sys.path:
    sys.path.insert(0, REPO)
# never write .pyc files into the repository under test
sys.dont_write_bytecode = True
