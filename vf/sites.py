"""A generated 'whole site': tree + a model of what every selector should be."""
from __future__ import annotations

import random
import typing

from vf import trees
from vf.trees import Tree, tob


class Obj:
    """One servable object of the model."""
    __slots__ = ("selector", "kind", "data", "needs_full", "mime", "tags")

    def __init__(self, selector: bytes, kind: str, data: typing.Optional[bytes] = None,
                 needs_full: bool = False, mime: typing.Optional[str] = None, tags=()):
        self.selector = selector      # bytes, starts with '/'
        self.kind = kind              # 'doc' | 'menu'
        self.data = data              # expected document bytes (None = not modelled)
        self.needs_full = needs_full  # only with the full handler list
        self.mime = mime
        self.tags = set(tags)

    def __repr__(self):
        return "Obj(%r,%s,%s)" % (self.selector, self.kind, sorted(self.tags))


class SiteModel:
    def __init__(self):
        self.tree = Tree()
        self.objs: typing.List[Obj] = []

    def add(self, *a, **kw) -> Obj:
        o = Obj(*a, **kw)
        self.objs.append(o)
        return o

    def docs(self, full: bool) -> typing.List[Obj]:
        return [o for o in self.objs if o.kind == "doc" and (full or not o.needs_full)]

    def menus(self, full: bool) -> typing.List[Obj]:
        return [o for o in self.objs if o.kind == "menu" and (full or not o.needs_full)]


from vf import mimeref

MIME_BY_EXT = {e: mimeref.mime_for_ext(e) for e in mimeref.KNOWN_EXTS + mimeref.UNKNOWN_EXTS}


GM_STYLES = ["crlf", "lf", "crlf-unterminated", "lf-unterminated"]


def gen_site(rng: random.Random, scratch: str, name_classes=("plain", "spaces", "reserved",
                                                            "nonutf8", "unicode"),
             nfiles: int = 10, with_zip: bool = True, with_mail: bool = True,
             with_exec: bool = True, sizes=(0, 1, 5, 100, 4096, 4097, 9000), gm_style: typing.Optional[str] = None) -> SiteModel:
    m = SiteModel()
    t = m.tree
    m.add(b"/", "menu", tags=["dir", "root"])
    dirs = [b""]
    # a few nested directories
    for i in range(rng.randrange(2, 4)):
        parent = rng.choice(dirs)
        dn, cls = trees.gen_name(rng, name_classes, ext="")
        d = (parent + b"/" + dn).strip(b"/")
        if d in t.nodes:
            continue
        t.dir(d)
        dirs.append(d)
        m.add(b"/" + d, "menu", tags=["dir", "name:" + cls])
    # plain files
    used = set()
    for i in range(nfiles):
        parent = rng.choice(dirs)
        ext = rng.choice(list(MIME_BY_EXT))
        fn, cls = trees.gen_name(rng, name_classes, ext=ext)
        p = (parent + b"/" + fn).strip(b"/")
        if p in t.nodes or fn.lower() in used:
            continue
        used.add(fn.lower())
        size = rng.choice(sizes)
        if ext == ".html":
            data = trees.html_doc(rng.choice(["Title %d" % i, "A & B", None, "x  y\n z"]))
        else:
            data = trees.gen_content(rng, size, rng.choice(trees.CONTENT_CLASSES))
        t.file(p, data)
        m.add(b"/" + p, "doc", data, mime=MIME_BY_EXT[ext], tags=["file", "name:" + cls, "ext:" + ext])
        if rng.random() < 0.25:
            t.file(p + b".abstract", rng.choice(["About this file\nsecond line", "A tab\tinside the abstract\nand a second line"]))
    # packed files: sent as the bytes they are, and announced as such by every protocol alike
    for nm, data in (("notes.txt.gz", trees.gz(b"packed notes\n" * 40)), ("src.tar.gz", trees.gz(b"\0" * 1024)),
                     ("manual.ps.Z", b"\x1f\x9d\x90" + b"compressed postscript" * 30), ("page.html.gz", trees.gz(b"<html><title>P</title></html>"))):
        t.file("packed/" + nm, data)
        m.add(("/packed/" + nm).encode(), "doc", data, mime="application/octet-stream", tags=["file", "packed"])
    m.add(b"/packed", "menu", tags=["dir"])
    # a directory with UMN metadata
    t.dir("umn")
    m.add(b"/umn", "menu", tags=["dir", "umn"])
    t.file("umn/one.txt", "one\n")
    t.file("umn/two.txt", "two\n")
    m.add(b"/umn/one.txt", "doc", b"one\n", mime="text/plain", tags=["file"])
    m.add(b"/umn/two.txt", "doc", b"two\n", mime="text/plain", tags=["file"])
    t.file("umn/.names", "Path=./one.txt\nName=The First\nNumb=2\n\nPath=./two.txt\nName=The Second\nNumb=1\n")
    t.file("umn/.Links", "Name=Remote Site\nType=1\nPath=/remote/path\nHost=gopher.example.org\nPort=7070\n\n"
                         "Name=Local Again\nType=0\nPath=/umn/one.txt\nHost=+\nPort=+\n\n"
                         "Name=Other port here\nType=1\nPath=/otherport\nHost=+\nPort=7070\n\n"
                         "Name=Relative with plus\nType=0\nPath=one.txt\nHost=+\nPort=+\n\n"
                         "Name=Mail link\nType=h\nPath=URL:mailto:webmaster@example.org\nHost=+\nPort=+\n\n"
                         "Name=Finger information\nType=0\nPath=lindner\nHost=mudhoney.example.org\nPort=79\n\n"
                         "Name=Bucktooth style remote\nType=1\nPath=1/docs/about\nHost=other.example.org\nPort=70\n\n"
                         "Name=Relative bare\nType=0\nPath=two.txt\n\n"
                         "Name=Other host std port\nType=1\nPath=/otherhost\nHost=gopher2.example.org\nPort=+\n\n"
                         "Name=Back to the top\nType=1\nPath=/\nHost=+\nPort=+\n\n"
                         "Name=Search on another server\nType=7\nPath=/v2/vs\nHost=search.example.org\nPort=70\n\n"
                         "Name=Search here on another port\nType=7\nPath=/find\nHost=+\nPort=7070\n")
    t.file("umn/.abstract", "Directory about UMN things")
    # gophermap directory
    t.dir("gm")
    m.add(b"/gm", "menu", tags=["dir", "gophermap"])
    t.file("gm/local.txt", "local\n")
    m.add(b"/gm/local.txt", "doc", b"local\n", mime="text/plain", tags=["file"])
    gmtext = ("Welcome to the map\n\n0Local file\tlocal.txt\n0Absolute\t/umn/one.txt\n"
              "1Remote dir\t/x\tgopher.example.org\t70\n1Up\t/umn\nhWeb\tURL:http://example.org/a?b=c\n"
              "hWeb query\tURL:http://example.org/find?q=gopher&lang=en&x=<1>\nhTick\tURL:http://example.org/it's&amp;\n"
              "1Top of the site\t/\n7Search it\t/gm/local.txt\n7Search elsewhere\t/v2/vs\tsearch.example.org\t70\n"
              "7Search elsewhere, other port\t/find it\tsearch.example.org\t7070\n"
              "hMail the admin\tURL:mailto:admin@example.org\nhNews group\tURL:news:comp.infosystems.gopher\n"
              "0local.txt\t\n0Last line\tlocal.txt\n")
    # as written on Unix, on DOS, or without a final line terminator
    gmstyle = rng.choice(GM_STYLES)
    if gm_style is not None:
        gmstyle = gm_style
    if gmstyle.startswith("crlf"):
        gmtext = gmtext.replace("\n", "\r\n")
    if gmstyle.endswith("unterminated"):
        gmtext = gmtext.rstrip("\r\n")
    t.file("gm/gophermap", gmtext)
    # directories whose own names match the patterns by which handlers recognise *files* (a folder someone called
    # old.gophermap, a mirror of a download area): they are directories, listed and served as such
    for dn, with_map in (("old.gophermap", True), ("drafts.gophermap", False), ("photos.zip", False), ("inbox.mbox", False),
                         ("site.html", False), ("tools.pyg", False), ("logs.txt.gz", False), ("tpl.html.tal", False)):
        t.file("named/%s/first.txt" % dn, "first in %s\n" % dn)
        m.add(("/named/%s" % dn).encode(), "menu", tags=["dir", "dir-named-like-a-file"])
        m.add(("/named/%s/first.txt" % dn).encode(), "doc", ("first in %s\n" % dn).encode(), mime="text/plain", tags=["file"])
        if with_map:
            t.file("named/%s/gophermap" % dn, "A folder that happens to be called like a map file\n0First\tfirst.txt\n")
    m.add(b"/named", "menu", tags=["dir"])
    if with_mail:
        subj = ["Hello world", "Re: A & B <tag>", "third  message"]
        t.file("mail.mbox", trees.make_mbox(subj, scratch))
        m.add(b"/mail.mbox", "menu", tags=["mbox"])
        for i in range(1, len(subj) + 1):
            m.add(b"/mail.mbox|/MBOX-MESSAGE/%d" % i, "doc", None, tags=["mboxmsg"])
        t.subtree("md", trees.maildir_tree(["Maildir one", "Maildir two"], where="cur"))
        m.add(b"/md", "menu", tags=["maildir"])
        for i in (1, 2):
            m.add(b"/md|/MAILDIR-MESSAGE/%d" % i, "doc", None, tags=["maildirmsg"])
    if with_zip:
        z = Tree()
        z.file("inner.txt", "inside the archive\n")
        z.file("sub/deep.txt", "deep\n")
        z.file("sub/page.html", trees.html_doc("Zipped page"))
        # members of the kinds that only real-file handlers may act on
        zmbox = trees.make_mbox(["Zipped subject"], scratch)
        z.file("mail.mbox", zmbox)
        z.subtree("md", trees.maildir_tree(["Zipped maildir"], where="cur"))
        z.file("run.sh", trees.script_echo_env(), mode=0o755)
        # members whose own names look like archives: a directory and a nested archive
        z.file("backup.zip/readme.txt", "inside a directory that is merely called backup.zip\n")
        z.file("inner.zip", Tree().file("nested.txt", "nested member\n").to_zip())
        zdata = z.to_zip()
        t.file("arch.zip", zdata)
        m.add(b"/arch.zip/mail.mbox", "doc", zmbox, needs_full=True, tags=["zipmember", "zip-mbox"])
        m.add(b"/arch.zip/md", "menu", needs_full=True, tags=["zipdir", "zip-maildir"])
        m.add(b"/arch.zip/run.sh", "doc", trees.script_echo_env(), needs_full=True, tags=["zipmember", "zip-script"])
        m.add(b"/arch.zip/backup.zip", "menu", needs_full=True, tags=["zipdir", "zipdir-named-like-archive"])
        m.add(b"/arch.zip/backup.zip/readme.txt", "doc", b"inside a directory that is merely called backup.zip\n", needs_full=True,
              mime="text/plain", tags=["zipmember"])
        m.add(b"/arch.zip/inner.zip", "menu", needs_full=True, tags=["zip", "nested-zip"])
        m.add(b"/arch.zip/inner.zip/nested.txt", "doc", b"nested member\n", needs_full=True, mime="text/plain", tags=["zipmember"])
        m.add(b"/arch.zip", "menu", needs_full=True, tags=["zip"])
        m.add(b"/arch.zip/inner.txt", "doc", b"inside the archive\n", needs_full=True,
              mime="text/plain", tags=["zipmember"])
        m.add(b"/arch.zip/sub", "menu", needs_full=True, tags=["zipdir"])
        m.add(b"/arch.zip/sub/deep.txt", "doc", b"deep\n", needs_full=True, mime="text/plain",
              tags=["zipmember"])
    if with_exec:
        t.file("cgi.sh", trees.script_echo_env(), mode=0o755)
        m.add(b"/cgi.sh", "doc", None, needs_full=True, tags=["exec"])
        # a script whose own name needs escaping in every URL
        t.file("c#find 100%.sh", trees.script_echo_env(), mode=0o755)
        m.add(b"/c#find 100%.sh", "doc", None, needs_full=True, tags=["exec", "name:reserved"])
        t.file("echo.pyg", trees.pyg_echo(), mode=0o755)
        m.add(b"/echo.pyg", "doc", None, needs_full=True, tags=["pyg"])
        payload = trees.gen_content(rng, 5000, "text")
        t.file("packed.txt.gz", trees.gz(payload))
        m.add(b"/packed.txt.gz", "doc", payload, needs_full=True, mime="text/plain", tags=["gz"])
    return m
