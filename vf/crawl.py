"""Per-protocol listing readers: a listing response -> ordered entries
(kind, display name, target).  Used by the C05 crawler and the C06/C09 comparisons.
Written against the protocols' documents, not the renderers."""
from __future__ import annotations

import re
import typing
import urllib.parse

from vf import parsers, reqs
from vf.driver import SERVER_NAME

LOCAL_PORT = 70


class Entry:
    __slots__ = ("type", "name", "local", "selector", "url", "raw", "search")

    def __init__(self, type_, name, local, selector=None, url=None, raw=None, search=False):
        self.type = type_        # gopher type char if the protocol shows it, else None
        self.name = name         # display text (bytes)
        self.local = local       # True / False / None (informational line)
        self.selector = selector  # bytes for local targets
        self.url = url           # for remote targets (bytes/str as found)
        self.raw = raw           # the link exactly as a client would follow it
        self.search = search

    def __repr__(self):
        return "Entry(%r,%r,local=%r,sel=%r,url=%r)" % (self.type, self.name, self.local, self.selector, self.url)

    def triple(self):
        return (self.type, self.name, self.local, self.selector, self.url)


def from_gopher_lines(lines: typing.List[dict]) -> typing.List[Entry]:
    out = []
    for d in lines:
        t = d["type"]
        if t == "i":
            out.append(Entry("i", d["name"], None))
        elif d["host"] == SERVER_NAME.encode() and d["port"] == LOCAL_PORT:
            if re.match(rb"/?URL:", d["selector"]):
                out.append(Entry(t, d["name"], False, url=re.sub(rb"^/?URL:", b"", d["selector"]), raw=d["selector"]))
            else:
                out.append(Entry(t, d["name"], True, selector=d["selector"], raw=d["selector"], search=(t == "7")))
        else:
            out.append(Entry(t, d["name"], False, url=b"gopher://%s:%d/%s%s" % (d["host"], d["port"], t.encode(), d["selector"]),
                             raw=d["selector"]))
    return out


def from_gopherplus_items(items) -> typing.List[Entry]:
    lines = []
    for blocks in items:
        info = blocks[0][1][0]
        lines.append(parsers.parse_gopher_line(info))
    return from_gopher_lines(lines)


FIXED_HTML_LINKS = {"/": "server top"}


# the URL path of the page whose links are being read (relative references resolve against it, as in a browser)
CURRENT_PAGE_PATH = "/"


def _href_entry(href: str, text: str, search: bool, prefix: str = "") -> Entry:
    name = text.encode("utf-8", "surrogateescape")
    if not href.startswith("/") and not re.match(r"[A-Za-z][A-Za-z0-9+.-]*:", href) and not href.startswith("#"):
        # no scheme, no leading slash: a relative reference
        href = urllib.parse.urljoin(CURRENT_PAGE_PATH, href)
    if href.startswith("/"):
        path = href
        if prefix and path.startswith(prefix):
            path = path[len(prefix):] or "/"
            if not path.startswith("/"):
                path = "/" + path
        sel = parsers.unquote_bytes(path.split("?", 1)[0])
        return Entry(None, name, True, selector=sel, raw=href, search=search)
    return Entry(None, name, False, url=href.encode("utf-8", "surrogateescape"), raw=href)


def from_html(body: bytes) -> typing.List[Entry]:
    """The listing table of the HTTP directory page: one row per entry.  Read from parser
    events (tag case, attribute order and quoting style do not matter): inside the first
    table, every <tr> is an entry; its link is the first <a href> or <form action>, its
    name the text of the <tt> element (or, without one, of the link)."""
    text = body.decode("utf-8", "surrogateescape")
    evs = parsers.html_events(text)
    out = []
    depth = 0
    row = None
    in_tt = in_a = False
    seen_table = False
    for ev in evs:
        if ev[0] == "start" and ev[1] == "table":
            depth += 1
            seen_table = True
            continue
        if ev[0] == "end" and ev[1] == "table":
            if row is not None:
                out.append(row)
                row = None
            depth -= 1
            if depth <= 0:
                break
            continue
        if depth != 1:
            continue
        if ev[0] == "start" and ev[1] == "tr":
            if row is not None:
                out.append(row)
            row = {"href": None, "action": None, "tt": "", "atext": "", "has_tt": False}
            in_tt = in_a = False
        elif ev[0] == "end" and ev[1] == "tr":
            if row is not None:
                out.append(row)
                row = None
        elif row is not None:
            if ev[0] == "start" and ev[1] == "a" and row["href"] is None:
                row["href"] = dict(ev[2]).get("href")
                in_a = True
            elif ev[0] == "end" and ev[1] == "a":
                in_a = False
            elif ev[0] == "start" and ev[1] == "form" and row["action"] is None:
                row["action"] = dict(ev[2]).get("action")
            elif ev[0] == "start" and ev[1] == "tt":
                in_tt = True
                row["has_tt"] = True
            elif ev[0] == "end" and ev[1] == "tt":
                in_tt = False
            elif ev[0] == "text":
                if in_tt:
                    row["tt"] += ev[1]
                elif in_a:
                    row["atext"] += ev[1]
    if not seen_table:
        raise parsers.Malformed("no listing table in the HTML page")
    res = []
    for r in out:
        label = r["tt"] if r["has_tt"] else r["atext"]
        if r["href"] is not None:
            res.append(_href_entry(r["href"], label, False))
        elif r["action"] is not None:
            res.append(_href_entry(r["action"], label, True))
        else:
            res.append(Entry("i", label.encode("utf-8", "surrogateescape"), None))
    return res


def from_wml(body: bytes, waptop: typing.Optional[str] = None) -> typing.List[Entry]:
    if waptop is None:
        waptop = reqs.WAPTOP
    text = body.decode("utf-8", "surrogateescape")
    i = text.find("<br/>\n")  # end of the title line
    j = text.rfind("</p>\n</card>")
    if i < 0 or j < 0:
        raise parsers.Malformed("no WML card body")
    out = []
    chunk = text[i + 6:j]
    # every entry ends with <br/>\n ; search entries contain an <anchor> block
    pos = 0
    pieces = []
    while pos < len(chunk):
        k = chunk.find("<br/>\n", pos)
        if k < 0:
            break
        piece = chunk[pos:k]
        nxt = k + 6
        if chunk.startswith("  <input", nxt):
            e = chunk.find("</anchor>\n<br/>\n", nxt)
            if e < 0:
                raise parsers.Malformed("unterminated search entry")
            piece = chunk[pos:e + 10]
            nxt = e + 16
        pieces.append(piece)
        pos = nxt
    for piece in pieces:
        evs = parsers.html_events(piece)
        href = None
        go = None
        label = ""
        in_a = False
        first_text = True
        for ev in evs:
            if ev[0] == "start" and ev[1] == "a":
                href = dict(ev[2]).get("href")
                in_a = True
                label = ""
            elif ev[0] == "end" and ev[1] == "a":
                in_a = False
            elif ev[0] == "start" and ev[1] == "go":
                go = dict(ev[2]).get("href")
            elif ev[0] == "text":
                if in_a or (href is None and go is None and first_text):
                    label += ev[1]
                first_text = False
        if href is not None:
            out.append(_href_entry(href, label, False, prefix=waptop))
        elif go is not None:
            out.append(_href_entry(go, label.split("\n")[0], True, prefix=waptop))
        else:
            out.append(Entry("i", label.encode("utf-8", "surrogateescape"), None))
    return out


def from_gemtext(body: bytes, footer_lines: int = 2, query_prefix: bytes = b"/GEMINI-QUERY") -> typing.List[Entry]:
    lines = parsers.parse_gemtext_links(body)
    # configured footer: a blank line, the footer text, and the final newline's empty piece
    if len(lines) >= 3 and lines[-1] == {"kind": "text", "text": b""}:
        lines = lines[:-1]
        if lines and lines[-1]["kind"] == "link" and b"Generated by PyGopherd" in lines[-1]["label"]:
            lines = lines[:-1]
            if lines and lines[-1] == {"kind": "text", "text": b""}:
                lines = lines[:-1]
    out = []
    for ln in lines:
        if ln["kind"] == "text":
            out.append(Entry("i", ln["text"], None))
            continue
        url = ln["url"]
        search = ln["kind"] == "prompt"
        if url.startswith(b"/"):
            path = url
            if path.startswith(query_prefix + b"/") or path == query_prefix:
                path = path[len(query_prefix):] or b"/"
                search = True
            out.append(Entry(None, ln["label"], True, selector=parsers.unquote_bytes(path), raw=url, search=search))
        else:
            out.append(Entry(None, ln["label"], False, url=url, raw=url))
    return out


def entries_of(view: str, verdict) -> typing.List[Entry]:
    """verdict: vf.validate.Verdict of a menu reply in that view."""
    fam = reqs.VIEWS[view][0]
    d = verdict.parsed
    if fam == "gopher":
        return from_gopher_lines(d)
    if fam == "gopherp":
        if "items" in d:
            return from_gopherplus_items(d["items"])
        return from_gopher_lines(d["menu"])
    if fam == "http":
        return from_html(d["body"])
    if fam == "wap":
        return from_wml(d["body"])
    if fam in ("gemini", "spartan"):
        return from_gemtext(d["body"])
    raise ValueError(view)


def follow_request(view: str, e: Entry, query: typing.Optional[bytes] = None) -> typing.Tuple[bytes, bool]:
    """The request a client of that protocol sends when it follows the entry: the
    link text exactly as it appeared in the listing."""
    fam, tls = reqs.VIEWS[view]
    if fam in ("gopher", "gopherp"):
        v = view
        if fam == "gopherp" and view.endswith("!"):
            v = view[:-1] + "+"
        return reqs.render(v, e.selector, query)
    raw = e.raw if isinstance(e.raw, bytes) else e.raw.encode("utf-8", "surrogateescape")
    return reqs.render(view if fam != "wap" else "http", raw, query, prequoted=True)


def entries_if_menu(view: str, resp, verdict) -> typing.Optional[typing.List[Entry]]:
    """Entries of a reply that is, or may be (ZIP handler: class 'any'), a menu; None if it is not one."""
    fam = reqs.VIEWS[view][0]
    v = verdict
    if v.klass == "any":
        try:
            if fam == "gopher":
                v.parsed = parsers.parse_gopher_menu(resp.data, allow_empty=False)
            elif fam == "gopherp":
                if view.endswith("$"):
                    v.parsed["items"] = parsers.parse_gopherplus_items(v.parsed["body"])
                else:
                    v.parsed["menu"] = parsers.parse_gopher_menu(v.parsed["body"], allow_empty=False)
            elif fam in ("http", "wap"):
                ct = dict(v.parsed["headers"]).get("content-type")
                if ct not in (b"text/html", b"text/vnd.wap.wml"):
                    return None
            elif fam in ("gemini", "spartan"):
                if v.parsed["meta"] != b"text/gemini":
                    return None
        except parsers.Malformed:
            return None
    elif v.klass not in ("menu", "info"):
        return None
    try:
        return entries_of(view, v)
    except Exception:
        return None if v.klass == "any" else (_ for _ in ()).throw(parsers.Malformed("listing unreadable"))
