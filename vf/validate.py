"""'One complete, well-formed response for the detected protocol' as a predicate on
(response bytes, protocol class that answered, what the log says about the handler).
Shared by C03, C11, C12, C14."""
from __future__ import annotations

import builtins
import re
import typing

from vf import parsers
from vf.parsers import Malformed

FAMILY = {
    "GopherProtocol": "gopher", "SecureGopherProtocol": "gopher",
    "GopherPlusProtocol": "gopherp", "SecureGopherPlusProtocol": "gopherp",
    "URLGopherPlus": "gopherp", "EnhancedGopherProtocol": "gopher",
    "HTTPProtocol": "http", "HTTPSProtocol": "http", "WAPProtocol": "wap",
    "GeminiProtocol": "gemini", "SpartanProtocol": "spartan",
}

MENU_HANDLERS = {"UMNDirHandler", "DirHandler", "BuckGophermapHandler", "MBoxFolderHandler",
                 "MaildirFolderHandler"}
DOC_HANDLERS = {"FileHandler", "HTMLFileTitleHandler", "CompressedFileHandler",
                "MBoxMessageHandler", "MaildirMessageHandler", "ExecHandler", "PYGHandler",
                "TALFileHandler", "HTMLURLHandler"}


def is_io_error_name(name: str) -> bool:
    """FileNotFound (pygopherd's own) and OSError subclasses are the two kinds of
    failure the protocols promise to turn into an error reply."""
    if name == "FileNotFound":
        return True
    cls = getattr(builtins, name, None)
    if isinstance(cls, type) and issubclass(cls, OSError):
        return True
    # ssl's errors are OSError subclasses that do not live in builtins
    return name in ("timeout", "SSLError", "SSLEOFError", "SSLZeroReturnError",
                    "SSLWantReadError", "SSLWantWriteError", "SSLSyscallError")


TS_PATTERNS = [
    (re.compile(rb"Last-Modified: [^\r\n]*"), b"Last-Modified: <ts>"),
    (re.compile(rb" Mod-Date: [^\r\n]*"), b" Mod-Date: <ts>"),
]


def normalize_ts(data: bytes) -> bytes:
    for pat, rep in TS_PATTERNS:
        data = pat.sub(rep, data)
    return data


class Verdict:
    __slots__ = ("ok", "klass", "reason", "parsed")

    def __init__(self, ok: bool, klass: str, reason: str = "", parsed=None):
        self.ok = ok
        self.klass = klass    # 'menu' | 'doc' | 'error' | 'info' | 'prompt' | 'redirect' | 'headonly'
        self.reason = reason
        self.parsed = parsed


def validate(resp, request: bytes = b"", head: bool = False) -> Verdict:
    """Syntactic validity of resp.data for the protocol that answered.
    Uses: resp.protocol (class returned by the multiplexer), resp.log."""
    proto = resp.protocol
    fam = FAMILY.get(proto or "")
    if fam is None:
        return Verdict(False, "none", "no protocol claimed the request (%r)" % (proto,))
    ph = resp.protocol_handler()
    handler = ph[1] if ph else None
    notfound = any(e == "FileNotFound" or is_io_error_name(e) for e in resp.exceptions())
    data = resp.data
    try:
        if fam == "gopher":
            if handler is None:
                d = parsers.parse_gopher_error(data)
                return Verdict(True, "error", parsed=d)
            if notfound:
                # a handler was chosen and a not-found was logged: either the request failed
                # later (error line) or only a child entry of a listing was unservable
                try:
                    d = parsers.parse_gopher_error(data)
                    if d["host"] == b"error.host":
                        return Verdict(True, "error", parsed=d)
                except Malformed:
                    pass
            if handler in MENU_HANDLERS:
                return Verdict(True, "menu", parsed=parsers.parse_gopher_menu(data))
            if handler in DOC_HANDLERS:
                return Verdict(True, "doc", parsed=data)
            # ZIPHandler (or an unknown handler): a member document or a member directory
            return Verdict(True, "any", parsed=data)
        if fam == "gopherp":
            d = parsers.parse_gopherplus(data)
            if not d["ok"]:
                return Verdict(True, "error", parsed=d)
            if handler is None:
                raise Malformed("success status but no handler was chosen")
            form = _gopherp_form(request)
            if form == "!" or (form == "$" and handler in MENU_HANDLERS):
                d["items"] = parsers.parse_gopherplus_items(d["body"])
                if form == "!" and len(d["items"]) != 1:
                    raise Malformed("! reply with %d items" % len(d["items"]))
                return Verdict(True, "info", parsed=d)
            if handler in MENU_HANDLERS and form == "+":
                d["menu"] = parsers.parse_gopher_menu(d["body"])
                return Verdict(True, "menu", parsed=d)
            if handler == "ZIPHandler":
                return Verdict(True, "any", parsed=d)
            return Verdict(True, "doc", parsed=d)
        if fam in ("http", "wap"):
            d = parsers.parse_http(data)
            hdr = dict(d["headers"])
            if "content-type" not in hdr:
                raise Malformed("no Content-Type header")
            if "content-length" in hdr and not head:
                # HTTP/1.0: a Content-Length, if sent, is the number of body bytes that follow
                if not hdr["content-length"].isdigit() or int(hdr["content-length"]) != len(d["body"]):
                    raise Malformed("Content-Length %r but %d body bytes were sent" % (hdr["content-length"], len(d["body"])))
            if d["status"] == 404 or (fam == "wap" and d["reason"] == b"Not Found"):
                return Verdict(True, "error", parsed=d)
            if d["status"] != 200:
                raise Malformed("unexpected HTTP status %d" % d["status"])
            if head:
                if d["body"]:
                    raise Malformed("successful HEAD reply carries %d body bytes" % len(d["body"]))
                return Verdict(True, "headonly", parsed=d)
            if handler in MENU_HANDLERS:
                return Verdict(True, "menu", parsed=d)
            if handler == "ZIPHandler":
                return Verdict(True, "any", parsed=d)
            return Verdict(True, "doc", parsed=d)
        if fam == "gemini":
            d = parsers.parse_gemini(data)
            st = d["status"]
            if 20 <= st <= 29:
                if handler in MENU_HANDLERS:
                    return Verdict(True, "menu", parsed=d)
                if handler == "ZIPHandler":
                    return Verdict(True, "any", parsed=d)
                return Verdict(True, "doc", parsed=d)
            if 10 <= st <= 19:
                return Verdict(True, "prompt", parsed=d)
            if 30 <= st <= 39:
                return Verdict(True, "redirect", parsed=d)
            if 40 <= st <= 69:
                return Verdict(True, "error", parsed=d)
            raise Malformed("Gemini status %d" % st)
        if fam == "spartan":
            d = parsers.parse_spartan(data)
            if d["status"] == 2:
                if handler in MENU_HANDLERS:
                    return Verdict(True, "menu", parsed=d)
                if handler == "ZIPHandler":
                    return Verdict(True, "any", parsed=d)
                return Verdict(True, "doc", parsed=d)
            if d["status"] == 3:
                return Verdict(True, "redirect", parsed=d)
            return Verdict(True, "error", parsed=d)
    except Malformed as e:
        return Verdict(False, "malformed", "%s: %s" % (fam, e))
    return Verdict(False, "none", "unreachable")


def _gopherp_form(request: bytes) -> str:
    line = request.split(b"\n", 1)[0].rstrip(b"\r\n")
    parts = [p.strip() for p in line.split(b"\t")]
    last = parts[-1] if parts else b""
    if last == b"!":
        return "!"
    if last[:1] == b"$":
        return "$"
    return "+"
