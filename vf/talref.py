"""tal_ref: an independent reference for TAL 1.4 / TALES / METAL over HTML templates.

Written from the TAL 1.4, TALES 1.0 and METAL 1.0 specifications; shares no code with
/repo/simpletal.  Three parts:

  1. parse() / events() / skeleton(): stdlib html.parser -> tree / normalised event
     stream (so quoting style, entity spelling and boolean-attribute spelling can never
     make two documents differ);
  2. Ref: a tree-walking evaluator (define -> condition -> repeat -> content|replace ->
     attributes -> omit-tag, METAL use-macro / fill-slot);
  3. Schema / TemplateGen / DocGen: seeded workload generators (second half of file).

Where the specifications are silent the evaluator raises Abstain and the generators do
not produce the construct (list in ASSUMPTIONS).
"""
from __future__ import annotations

import html
import re
import typing
from collections.abc import Mapping
from html.parser import HTMLParser

# HTML 4.01 elements with a forbidden end tag
VOID = frozenset("area base basefont br col frame hr img input isindex link meta param".split())

ASSUMPTIONS = [
    "a path that does not exist evaluates to `nothing` at the top level of an expression "
    "(simpleTAL's documented rule); inside alternation / exists: / not: it is 'not found'",
    "tal:repeat over `nothing` (or a missing path) removes the element, like an empty sequence",
    "not generated (specs silent or simpleTAL documents a difference): repeat over numbers/"
    "mappings/`default`; iterators anywhere except one un-nested tal:repeat, and repeat/x/end|length "
    "on iterators; `default` in condition/omit-tag/not:; boolean repeat variables as text; more than "
    "26 iterations with letter; `$name` not followed by a blank; `string:` substitution of nothing/"
    "missing paths; `|` inside string:; upper-case or duplicate names in tal:attributes; "
    "tal:content together with tal:replace; tal:content on void elements; TAL commands on a "
    "metal:use-macro element; define-slot inside fill-slot; recursive macros; python:; ?var; XML templates",
    "dictionary keys / attribute names in paths never collide with methods of dict, list or str",
]


class Abstain(Exception):
    """The construct is outside what the reference defines."""


class NotFound(Exception):
    pass


# ------------------------------------------------------------------------- tree ----
class El:
    __slots__ = ("tag", "orig", "plain", "tal", "metal", "kids")

    def __init__(self, tag: str, attrs):
        self.tag = tag
        self.kids: list = []
        self.orig: dict = {}     # every source attribute: the `attrs` variable
        self.plain: list = []    # (name, value) of non-TAL attributes, source order
        self.tal: dict = {}
        self.metal: dict = {}
        for k, v in attrs:
            if k.startswith("tal:"):
                self.tal[k[4:]] = "" if v is None else v
                self.orig[k] = "" if v is None else v
                continue
            v = k if v is None else v      # HTML boolean attribute
            self.orig[k] = v
            if k.startswith("metal:"):
                self.metal[k[6:]] = v
            else:
                self.plain.append((k, v))


class _Builder(HTMLParser):
    def __init__(self):
        HTMLParser.__init__(self, convert_charrefs=True)
        self.root = El("#root", [])
        self.stack = [self.root]

    def handle_starttag(self, tag, attrs):
        el = El(tag, attrs)
        self.stack[-1].kids.append(el)
        if tag not in VOID:
            self.stack.append(el)

    def handle_startendtag(self, tag, attrs):
        self.stack[-1].kids.append(El(tag, attrs))

    def handle_endtag(self, tag):
        if tag in VOID:
            return
        for i in range(len(self.stack) - 1, 0, -1):
            if self.stack[i].tag == tag:
                del self.stack[i:]
                return
        raise Abstain("end tag without start tag: %s" % tag)

    def handle_data(self, data):
        self.stack[-1].kids.append(("t", data))

    def handle_comment(self, data):
        self.stack[-1].kids.append(("r", "<!--%s-->" % data))

    def handle_decl(self, data):
        self.stack[-1].kids.append(("r", "<!%s>" % data))

    def handle_pi(self, data):
        self.stack[-1].kids.append(("r", "<?%s>" % data))

    def unknown_decl(self, data):
        self.stack[-1].kids.append(("r", "<![%s]>" % data))


def parse(text: str) -> El:
    b = _Builder()
    b.feed(text)
    b.close()
    return b.root


# ---------------------------------------------------------------- event streams ----
class _Events(HTMLParser):
    def __init__(self):
        HTMLParser.__init__(self, convert_charrefs=True)
        self.ev: list = []

    def handle_starttag(self, tag, attrs):
        d = {k: (k if v is None else v) for k, v in attrs}
        self.ev.append(("S", tag, tuple(sorted(d.items()))))

    def handle_startendtag(self, tag, attrs):
        self.handle_starttag(tag, attrs)
        self.handle_endtag(tag)

    def handle_endtag(self, tag):
        if tag not in VOID:
            self.ev.append(("E", tag))

    def handle_data(self, data):
        if self.ev and self.ev[-1][0] == "T":
            self.ev[-1] = ("T", self.ev[-1][1] + data)
        elif data:
            self.ev.append(("T", data))

    def handle_comment(self, data):
        self.ev.append(("C", data))

    def handle_decl(self, data):
        self.ev.append(("D", data))

    def handle_pi(self, data):
        self.ev.append(("P", data))

    def unknown_decl(self, data):
        self.ev.append(("U", data))


def events(text: str) -> list:
    """Normalised event stream: start tags with attribute dicts (boolean attributes
    as name=name), merged text nodes, end tags (none for void elements)."""
    p = _Events()
    p.feed(text)
    p.close()
    return p.ev


def skeleton(ev: list) -> list:
    """Element / attribute-name structure only (no text, no attribute values)."""
    out = []
    for e in ev:
        if e[0] == "S":
            out.append(("S", e[1], tuple(k for k, _ in e[2])))
        elif e[0] != "T":
            out.append(e[:2] if e[0] == "E" else (e[0],))
    return out


def first_diff(a: list, b: list):
    for i, (x, y) in enumerate(zip(a, b)):
        if x != y:
            return i, x, y
    if len(a) != len(b):
        i = min(len(a), len(b))
        return i, (a[i] if i < len(a) else None), (b[i] if i < len(b) else None)
    return None


# -------------------------------------------------------------------- evaluator ----
class _Default:
    def __repr__(self):
        return "<default>"


DEFAULT = _Default()
_NAME = r"[A-Za-z_][A-Za-z0-9_]*"
_VARSUB = re.compile(r"\$(?:(\$)|\{([^}]*)\}|(%s(?:/[A-Za-z0-9_]+)*))" % _NAME)
_PREFIX = re.compile(r"(path|exists|nocall|not|string|python):")
_ROMAN = ((1000, "m"), (900, "cm"), (500, "d"), (400, "cd"), (100, "c"), (90, "xc"),
          (50, "l"), (40, "xl"), (10, "x"), (9, "ix"), (5, "v"), (4, "iv"), (1, "i"))


def roman(n: int) -> str:
    s = ""
    for v, r in _ROMAN:
        while n >= v:
            s, n = s + r, n - v
    return s


class _Undefined:
    """A value the reference does not define (reading it makes the reference abstain)."""

    def __init__(self, why: str):
        self.why = why


def repeat_info(i: int, n: typing.Optional[int]) -> dict:
    # beyond z the TAL specification's text (z, aa, ab ...) and the Zope implementation simpleTAL follows
    # (z, ba, bb ...) disagree: not defined here, but only templates that *read* it are given up
    beyond = _Undefined("letter beyond z")
    d = {"index": i, "number": i + 1, "even": i % 2 == 0, "odd": i % 2 == 1, "start": i == 0,
         "letter": chr(97 + i) if i < 26 else beyond, "Letter": chr(65 + i) if i < 26 else beyond, "roman": roman(i + 1),
         "Roman": roman(i + 1).upper()}
    if n is not None:          # unknown for iterators: the generator never asks
        d["end"] = i == n - 1
        d["length"] = n
    return d


def split_statements(arg: str) -> typing.List[str]:
    """`a x; b y` -> ['a x', 'b y'];  `;;` is a literal semicolon."""
    parts, cur, i = [], "", 0
    while i < len(arg):
        if arg[i] == ";":
            if arg[i + 1:i + 2] == ";":
                cur, i = cur + ";", i + 2
                continue
            parts.append(cur)
            cur = ""
        else:
            cur += arg[i]
        i += 1
    parts.append(cur)
    return [p.strip() for p in parts if p.strip()]


class Macro:
    def __init__(self, node: El):
        self.node = node


class RefTemplate:
    """A parsed template; `.macros` maps names to Macro objects (METAL)."""

    def __init__(self, text: str):
        self.root = parse(text)
        self.macros: typing.Dict[str, Macro] = {}
        todo = [self.root]
        while todo:
            el = todo.pop()
            if "define-macro" in el.metal:
                self.macros[el.metal["define-macro"]] = Macro(el)
            todo.extend(k for k in el.kids if isinstance(k, El))

    def expand(self, globs: dict) -> str:
        r = Ref(globs)
        r.children(self.root)
        self.work = r.work
        return "".join(r.out)


class Ref:
    def __init__(self, globs: dict):
        self.globals = {"nothing": None, "default": DEFAULT, "repeat": {}, "attrs": None,
                        "options": None}
        self.globals.update(globs)
        self.frames: typing.List[dict] = []
        self.slots: typing.Dict[str, El] = {}
        self.out: typing.List[str] = []
        self.work = 0            # elements rendered: a size measure for step budgets

    # ---- TALES -----------------------------------------------------------------
    def lookup(self, name: str):
        for f in reversed(self.frames):
            if name in f:
                return f[name]
        if name in self.globals:
            return self.globals[name]
        raise NotFound(name)

    def traverse(self, path: str, call: bool = True):
        parts = path.strip().split("/")
        if not all(re.fullmatch(r"[A-Za-z0-9_:\-]+", p) for p in parts):
            raise Abstain("path syntax: %r" % path)
        val = self.lookup(parts[0])
        for key in parts[1:]:
            if callable(val):
                val = val()
            if isinstance(val, Mapping):
                if key not in val:
                    raise NotFound(path)
                val = val[key]
                if isinstance(val, _Undefined):
                    raise Abstain(val.why)
            elif isinstance(val, (list, tuple)) and key.isdigit():
                if int(key) >= len(val):
                    raise NotFound(path)
                val = val[int(key)]
            elif not isinstance(val, (list, tuple)) and not key.startswith("_") and hasattr(val, key):
                val = getattr(val, key)
            else:
                raise NotFound(path)
        if call and callable(val):
            val = val()
        return val

    def evaluate(self, expr: str):
        e = expr.strip()
        m = _PREFIX.match(e)
        typ, body = (m.group(1), e[m.end():].strip()) if m else ("path", e)
        if typ == "python":
            raise Abstain("python:")
        if typ == "string":
            return self.string(body)
        if typ == "not":
            try:
                v = self.evaluate(body)
            except NotFound:
                return 1
            if v is DEFAULT:
                raise Abstain("not: default")
            return 0 if v else 1
        alts = body.split("|")
        if typ == "path":
            if len(alts) == 1:
                return self.traverse(body)
            for a in alts:
                try:
                    return self.evaluate(a)
                except NotFound:
                    pass
            raise NotFound(body)
        # exists: / nocall: take a path expression (with alternation), never called
        if any(_PREFIX.match(a.strip()) for a in alts):
            raise Abstain("typed alternative under %s:" % typ)
        for a in alts:
            try:
                v = self.traverse(a, call=False)
            except NotFound:
                continue
            return 1 if typ == "exists" else v
        if typ == "exists":
            return 0
        raise NotFound(body)

    def string(self, body: str) -> str:
        if "|" in body:
            raise Abstain("| in string:")

        def sub(m):
            if m.group(1):
                return "$"
            if m.group(3) and m.end() < len(body) and body[m.end()] != " ":
                raise Abstain("$name not followed by a blank")
            try:
                v = self.evaluate(m.group(2)) if m.group(2) is not None else self.traverse(m.group(3))
            except NotFound:
                raise Abstain("missing path in string:")
            if v is None or v is DEFAULT:
                raise Abstain("nothing/default in string:")
            return v if isinstance(v, str) else str(v)

        res = _VARSUB.sub(sub, body)
        if re.search(r"\$(?!\$)", _VARSUB.sub("", body)):
            raise Abstain("stray $")
        return res

    def top(self, expr: str):
        try:
            return self.evaluate(expr)
        except NotFound:
            return None

    @staticmethod
    def truth(v, what: str) -> bool:
        if v is DEFAULT:
            raise Abstain("default in " + what)
        return bool(v)

    # ---- TAL -----------------------------------------------------------------
    def children(self, el: El) -> None:
        for k in el.kids:
            if isinstance(k, El):
                self.element(k)
            elif k[0] == "t":
                self.out.append(html.escape(k[1], quote=False))
            else:
                self.out.append(k[1])

    def tags(self, el: El, attrs: list, inner: typing.Callable[[], None], omit: bool) -> None:
        if not omit:
            self.out.append("<%s%s>" % (el.tag, "".join(
                ' %s="%s"' % (k, html.escape(v, quote=True)) for k, v in attrs)))
        inner()
        if not omit and el.tag not in VOID:
            self.out.append("</%s>" % el.tag)

    def element(self, el: El) -> None:
        self.work += 1
        if not el.tal and not el.metal:
            return self.tags(el, el.plain, lambda: self.children(el), False)
        self.metal(el)

    def metal(self, el: El) -> None:
        if "use-macro" in el.metal:
            if el.tal:
                raise Abstain("TAL on use-macro element")
            self.frames.append({"attrs": el.orig})
            try:
                macro = self.top(el.metal["use-macro"])
            finally:
                self.frames.pop()
            if not isinstance(macro, Macro):
                raise Abstain("use-macro of a non-macro")
            fills: typing.Dict[str, El] = {}

            def collect(n: El, inside_fill: bool) -> None:
                for k in n.kids:
                    if not isinstance(k, El):
                        continue
                    if inside_fill and "define-slot" in k.metal:
                        raise Abstain("define-slot inside fill-slot")
                    if "use-macro" in k.metal:
                        continue      # its fill-slots belong to the nearer use-macro
                    if "fill-slot" in k.metal:
                        if k.metal["fill-slot"] in fills:
                            raise Abstain("slot filled twice")
                        fills[k.metal["fill-slot"]] = k
                    collect(k, inside_fill or "fill-slot" in k.metal)

            collect(el, False)
            saved, self.slots = self.slots, fills
            try:
                self.tal_element(macro.node)
            finally:
                self.slots = saved
            return
        slot = el.metal.get("define-slot")
        if slot is not None and slot in self.slots:
            return self.tal_element(self.slots[slot])
        self.tal_element(el)

    def tal_element(self, el: El) -> None:
        tal = el.tal
        if "content" in tal and "replace" in tal:
            raise Abstain("content and replace")
        self.frames.append({"attrs": el.orig})
        try:
            self.tal_scoped(el, tal)
        finally:
            self.frames.pop()

    def tal_scoped(self, el: El, tal: dict) -> None:
        pushed = False
        try:
            for stmt in split_statements(tal.get("define", "")):
                bits = stmt.split(None, 1)
                scope = "local"
                if bits[0] in ("local", "global") and len(bits) > 1 and len(bits[1].split(None, 1)) > 1:
                    scope, bits = bits[0], bits[1].split(None, 1)
                if len(bits) < 2:
                    raise Abstain("define without expression")
                val = self.top(bits[1])
                if scope == "global":
                    self.globals[bits[0]] = val
                else:
                    if not pushed:
                        self.frames.append({})
                        pushed = True
                    self.frames[-1][bits[0]] = val
            if "condition" in tal and not self.truth(self.top(tal["condition"]), "condition"):
                return
            if "repeat" not in tal:
                return self.body(el)
            var, expr = tal["repeat"].split(None, 1)
            seq = self.top(expr)
            length: typing.Optional[int] = None
            if seq is None:
                seq = ()
            if isinstance(seq, (list, tuple, str)):
                length = len(seq)
            elif seq is DEFAULT or isinstance(seq, Mapping) or not hasattr(seq, "__iter__"):
                raise Abstain("repeat over %s" % type(seq).__name__)
            outer = self.lookup("repeat")
            for i, item in enumerate(seq):
                self.frames.append({var: item, "repeat": dict(outer, **{var: repeat_info(i, length)})})
                try:
                    self.body(el)
                finally:
                    self.frames.pop()
        finally:
            if pushed:
                self.frames.pop()

    def body(self, el: El) -> None:
        tal = el.tal
        inner = lambda: self.children(el)  # noqa: E731
        cmd = "replace" if "replace" in tal else "content" if "content" in tal else None
        replaced = False
        if cmd:
            if el.tag in VOID and cmd == "content":
                raise Abstain("tal:content on a void element")
            arg = tal[cmd].strip()
            kw = arg.split(None, 1)
            structure = False
            if len(kw) == 2 and kw[0] in ("text", "structure"):
                structure, arg = kw[0] == "structure", kw[1]
            val = self.top(arg)
            if val is not DEFAULT:
                replaced = cmd == "replace"
                if val is None:
                    inner = lambda: None  # noqa: E731
                else:
                    if isinstance(val, (Macro, RefTemplate)):
                        raise Abstain("template as content")
                    text = val if isinstance(val, str) else str(val)
                    if not structure:
                        text = html.escape(text, quote=False)
                    inner = lambda: self.out.append(text)  # noqa: E731
        attrs = list(el.plain)
        seen = set()
        for stmt in split_statements(tal.get("attributes", "")):
            bits = stmt.split(None, 1)
            if len(bits) < 2 or bits[0] != bits[0].lower() or bits[0] in seen:
                raise Abstain("attributes statement %r" % stmt)
            seen.add(bits[0])
            val = self.top(bits[1])
            if val is DEFAULT:
                continue
            attrs = [(k, v) for k, v in attrs if k != bits[0]]
            if val is not None:
                attrs.append((bits[0], val if isinstance(val, str) else str(val)))
        omit = False
        if "omit-tag" in tal:
            omit = tal["omit-tag"].strip() == "" or self.truth(self.top(tal["omit-tag"]), "omit-tag")
        self.tags(el, attrs, inner, omit or replaced)


def tal_ref(template: str, globs: dict) -> str:
    """Expand `template` with the global variables `globs`; may raise Abstain."""
    return RefTemplate(template).expand(globs)


# =================================================================== generators ====
CANARIES = ['"><xss-7 onx-7=1>', "'", "&", "</b>", "<script>",
            # text that already holds a complete character reference next to live markup ("already escaped" it is not)
            "Fish &amp; Chips <xss-7 onx-7=1>", "&#169; 2009 <xss-7>", "&lt;ok&gt; <xss-7>", "&#x3c;<xss-7 onx-7=1>&nbsp;"]
_WORDS = ["alpha", "Bravo two", "c&d", "e<f>g", 'say "hi"', "it's", "x", "café", "0", "a;b",
          # values that look like the expression syntax they are substituted into: inserted as they are, once
          "US$$ 5", "${title} $name", "$$", "cost: $5", "a|b", "100% ${"]


class Obj:
    """Plain attribute container for path traversal by getattr."""

    def __init__(self, **kw):
        self.__dict__.update(kw)

    def __repr__(self):
        return "Obj(%s)" % ", ".join(sorted(self.__dict__))


class Schema:
    """A context of fixed shape (names and types) with seeded values.

    mode 'plain': ordinary strings, some with markup metacharacters;
    mode 'hostile': every string carries a canary payload.  inert() gives the same
    shape (lengths, emptiness, keys) with every non-alphanumeric character replaced.
    Callables, objects and iterators are described as tagged tuples and only turned
    into live objects by build(), so each expansion gets fresh ones."""

    # typed path catalogue over the fixed shape
    STR = ["s1", "s2", "s3", "m1/k1", "m1/sub/k1", "f1", "o1/a1", "o1/a2", "f3/k1"]
    STR_PLAIN = ["s1", "s3", "m1/k1", "n1"]          # exist, not callable, not None
    NUM = ["n0", "n1", "x1", "m1/k2"]
    NONE = ["nil", "m1/k3", "f4", "nothing"]
    FALSY = ["n0", "nil", "l0", "m1/k3"]             # exist and are false
    SEQS = ["l1", "f2", "m1/lst", "m1/sub/lst", "l0"]
    SEQN = ["l2", "o1/a3"]
    SEQM = ["l3"]
    MAP = ["m1", "m1/sub", "f3"]
    MISSING = ["nope", "m1/zz", "s1/zz", "l1/9", "nope/k1", "o1/zz", "m1/k3/zz", "f1/zz"]
    MAYBE = ["l1/0", "l1/2", "l2/1", "l3/0/name", "l3/1/kids"]

    def __init__(self, rng, mode: str = "plain"):
        self.rng, self.mode = rng, mode
        s, n = self.string, lambda: rng.choice([0, 1, 7, 42, -3, 2.5])
        strs = lambda lo, hi: [s() for _ in range(rng.randint(lo, hi))]  # noqa: E731
        self.vals = {
            "s1": s(False), "s2": s(), "s3": s(False), "n0": 0, "n1": rng.randint(1, 99),
            "x1": rng.choice([0.5, 1.25, 10.0]), "nil": None, "l0": [],
            "l1": strs(0, 4), "l2": ("tuple", [n() for _ in range(rng.randint(1, 5))]),
            "l3": [{"name": s(False), "val": n(), "kids": strs(0, 3)} for _ in range(rng.randint(0, 3))],
            "m1": {"k1": s(), "k2": n(), "k3": None, "sub": {"k1": s(False), "lst": strs(0, 3)},
                   "lst": strs(1, 3)},
            "f1": ("fn", s(False)), "f2": ("fn", strs(0, 3)), "f3": ("fn", {"k1": s()}),
            "f4": ("fn", None),
            "o1": ("obj", {"a1": s(), "a2": ("fn", s(False)), "a3": [n() for _ in range(rng.randint(0, 3))]}),
            "it1": ("iter", strs(0, 4)),
        }

    def string(self, may_be_empty: bool = True) -> str:
        r = self.rng
        if may_be_empty and r.random() < 0.15:
            return ""
        if self.mode == "hostile":
            return r.choice(["", "w ", "ab"]) + r.choice(CANARIES) + r.choice(["", " z", "q"])
        return r.choice(_WORDS)

    def inert(self) -> "Schema":
        def conv(v):
            if isinstance(v, str):
                return re.sub(r"[^A-Za-z0-9 ]", "x", v)
            if isinstance(v, tuple):
                return (v[0], conv(v[1]))
            if isinstance(v, list):
                return [conv(x) for x in v]
            if isinstance(v, dict):
                return {k: conv(x) for k, x in v.items()}
            return v

        other = Schema.__new__(Schema)
        other.rng, other.mode, other.vals = self.rng, "inert", conv(self.vals)
        return other

    def build(self) -> dict:
        def live(v):
            if isinstance(v, tuple):
                kind, x = v
                x = live(x)
                if kind == "fn":
                    return lambda x=x: x
                if kind == "obj":
                    return Obj(**x)
                if kind == "iter":
                    return iter(x)
                return tuple(x)
            if isinstance(v, list):
                return [live(x) for x in v]
            if isinstance(v, dict):
                return {k: live(x) for k, x in v.items()}
            return v

        return {k: live(v) for k, v in self.vals.items()}


RISKY = ("text-keyword", "exists-alt-unstripped", "exists-alt-truthiness", "exists-repeatvar")


def variants(text: str) -> typing.Tuple[str, str]:
    """(as written, with every risky construct in its equivalent safe spelling)."""
    return (re.sub("\x00([^\x01]*)\x01([^\x02]*)\x02", r"\1", text),
            re.sub("\x00([^\x01]*)\x01([^\x02]*)\x02", r"\2", text))


class TemplateGen:
    """Grammar-directed generator of TAL/METAL templates over a Schema's shape.

    gen_lib() -> macro library text (macros m1..mk); gen_page() -> page text that may
    use `lib/macros/*` and its own `page/macros/*`.  Risky constructs (classes in
    RISKY: spellings whose handling is a suspected defect) are emitted only when
    `risky` names their class, as \\x00risky\\x01safe\\x02 tokens (see variants())."""

    TAGS = ["div", "p", "span", "b", "i", "ul", "li", "em", "a", "h2", "td", "section"]
    VOIDS = ["br", "hr", "img", "input"]
    ATTRS = ["class", "id", "title", "href", "lang", "data-x"]
    AVALS = ["c1", "main nav", "a&b", 'q"q', "it's", "x<y", "", "café", "50%"]
    TEXTS = ["hello", " ", "a &amp; b", "&lt;tag&gt;", "&copy; 2024", "&#65;&#x42;", "x &gt; y",
             "\n  ", "caf&eacute;", "1 < 2", "tail."]

    def __init__(self, rng, max_depth: int = 5, structure: bool = True,
                 risky: typing.Optional[str] = None, metal: bool = True):
        self.rng, self.max_depth, self.structure, self.risky, self.use_metal = rng, max_depth, structure, risky, metal
        self.n = 0                      # unique-name counter
        self.lib: typing.Dict[str, list] = {}   # macro name -> slot names
        self.page_macros: typing.Dict[str, list] = {}
        self.later: typing.List[str] = []  # globally defined names (may or may not exist)
        self.global_defs: typing.Set[str] = set()
        self.iter_used = False
        self.used: typing.Set[str] = set()
        self.subsets: typing.Set[tuple] = set()
        self.depth_seen = 0
        self.elements = 0
        self.pending: typing.List[str] = []

    # ---- scopes: kind -> list of paths; 'rep' -> [(name, is_iterator)] ------------
    @staticmethod
    def base_scope() -> dict:
        S = Schema
        return {"str": list(S.STR), "num": list(S.NUM), "none": list(S.NONE), "seqs": list(S.SEQS),
                "seqn": list(S.SEQN), "seqm": list(S.SEQM), "map": list(S.MAP), "any": list(S.MAYBE),
                "rep": []}

    def fresh(self, prefix: str) -> str:
        self.n += 1
        return "%s%d" % (prefix, self.n)

    def add(self, sc: dict, name: str, kind: str) -> None:
        if kind == "mapitem":
            sc["str"].append(name + "/name")
            sc["num"].append(name + "/val")
            sc["seqs"].append(name + "/kids")
            sc["map"].append(name)
        else:
            sc[kind].append(name)

    # ---- expressions -------------------------------------------------------------
    def path(self, sc: dict, kinds: str) -> typing.Tuple[str, str]:
        pool = []
        for k in kinds.split():
            if k == "missing":
                pool += [(p, "any") for p in Schema.MISSING]
            elif k == "later":
                pool += [(p, "any") for p in self.later[-6:]]
            else:
                pool += [(p, k) for p in sc[k]]
        return self.rng.choice(pool)

    def string_expr(self, sc: dict, listy: bool) -> str:
        r, bits = self.rng, []
        for _ in range(r.randint(1, 4)):
            c = r.random()
            if c < 0.3:
                bits.append(r.choice(["lit", "a:b", "(x)", "a &amp b", "1<2", "don't", "100%"] + (["u;;v"] if listy else [])))
            elif c < 0.55:
                bits.append("$" + self.path(sc, "str num")[0])       # followed by blank/end
            elif c < 0.85:
                bits.append(r.choice(["", "p-"]) + "${" + self.path(sc, "str num")[0] + "}" + r.choice(["", ".", "s"]))
            elif c < 0.93:
                bits.append("$$" + r.choice(["", "5"]))
            else:
                # an escaped dollar sign directly in front of a substitution ("Total: $$${amount}"), or of another one
                bits.append(r.choice(["$$", "$$$$", "US$$"]) + r.choice(["${" + self.path(sc, "str num")[0] + "}",
                                                                         "$" + self.path(sc, "str num")[0], "$$5"]))
        self.used.add("string:")
        return "string:" + " ".join(bits)

    def repvar(self, sc: dict, boolean: bool) -> typing.Optional[str]:
        if not sc["rep"]:
            return None
        name, is_iter = self.rng.choice(sc["rep"])
        if boolean:
            what = self.rng.choice(["even", "odd", "start"] + ([] if is_iter else ["end"]))
        else:
            what = self.rng.choice(["index", "number", "letter", "Letter", "roman", "Roman"]
                                   + ([] if is_iter else ["length"]))
        self.used.add("repeat/" + what)
        return "repeat/%s/%s" % (name, what)

    def bar(self) -> str:
        return self.rng.choice([" | ", "|", " |", "| "])

    def exists_expr(self, sc: dict) -> str:
        r = self.rng
        self.used.add("exists:")
        if self.risky == "exists-alt-unstripped" and r.random() < 0.5:
            return "%s:%s\x00 | \x01|\x02%s" % (r.choice(["exists", "nocall"]), r.choice(Schema.STR_PLAIN),
                                                 self.path(sc, "missing str none")[0])
        if self.risky == "exists-alt-truthiness" and r.random() < 0.5:
            return "exists:\x00nope|\x01\x02" + r.choice(Schema.FALSY)
        if self.risky == "exists-repeatvar" and sc["rep"] and r.random() < 0.6:
            return "exists:repeat/%s\x00\x01/index\x02" % r.choice(sc["rep"])[0]
        return "exists:" + self.path(sc, "str num none missing any seqs map later")[0]

    def value_expr(self, sc: dict, listy: bool, title: bool) -> typing.Tuple[str, str]:
        """Expression for content / replace / attributes / define; (text, kind)."""
        r = self.rng
        c = r.random()
        if title and c < 0.1:
            self.used.add("attrs")
            return "attrs/title", "str"
        if c < 0.35:
            return self.path(sc, "str num")
        if c < 0.47:
            return self.path(sc, "none missing any later")[0], "any"
        if c < 0.55:
            w = r.choice(["default", "nothing"])
            self.used.add(w)
            return w, "any"
        if c < 0.70:
            self.used.add("alternation")
            alts = [self.path(sc, "missing later")[0] for _ in range(r.randint(1, 2))]
            last = r.choice([self.path(sc, "str num none")[0], "default", "nothing", self.string_expr(sc, listy)
                             .replace("|", "")])
            return self.bar().join(alts + [last]), "any"
        if c < 0.82:
            return self.string_expr(sc, listy), "str"
        if c < 0.87:
            return self.exists_expr(sc), "num"
        if c < 0.92:
            self.used.add("not:")
            return "not:" + r.choice(["", " "]) + self.cond_expr(sc, nest=False), "num"
        rv = self.repvar(sc, boolean=False)
        return (rv, "any") if rv else self.path(sc, "str num")

    def cond_expr(self, sc: dict, nest: bool = True) -> str:
        r = self.rng
        c = r.random()
        if c < 0.45:
            return self.path(sc, "str num none missing any seqs seqn seqm map later")[0]
        if c < 0.6:
            return self.exists_expr(sc)
        if c < 0.75 and nest:
            self.used.add("not:")
            return "not:" + self.cond_expr(sc, nest=r.random() < 0.3)
        if c < 0.85:
            self.used.add("alternation")
            return self.path(sc, "missing later")[0] + self.bar() + self.path(sc, "str num none seqs")[0]
        return self.repvar(sc, boolean=True) or r.choice(["nothing", "s2", "l1"])

    # ---- markup ------------------------------------------------------------------
    def attr_text(self, name: str, value: typing.Optional[str]) -> str:
        if value is None:
            return name
        if self.rng.random() < 0.8:
            return '%s="%s"' % (name, html.escape(value, quote=False).replace('"', "&quot;"))
        return "%s='%s'" % (name, html.escape(value, quote=False).replace("'", "&#39;"))

    def text(self) -> str:
        r = self.rng
        return r.choice(self.TEXTS) if r.random() < 0.85 else "<!-- %s -->" % r.choice(["c", "a > b", "x"])

    def element(self, depth: int, sc: dict, loop: int = 0, macro: int = 0,
                metal: typing.Optional[typing.Tuple[str, str]] = None) -> str:
        r = self.rng
        self.elements += 1
        self.depth_seen = max(self.depth_seen, depth)
        sc = {k: list(v) for k, v in sc.items()}
        void = metal is None and r.random() < 0.08
        tag = r.choice(self.VOIDS if void else self.TAGS)
        static = [(a, r.choice(self.AVALS)) for a in r.sample(self.ATTRS, r.choice([0, 0, 1, 1, 2]))]
        if tag == "input" and r.random() < 0.5:
            static.append(("checked", None))
        title = any(a == "title" for a, _ in static)
        tal: typing.List[typing.Tuple[str, typing.Optional[str]]] = []
        cmds = []
        if metal or r.random() < 0.7:
            cmds = [c for c in ("define", "condition", "repeat", "cr", "attributes", "omit-tag") if r.random() < 0.35]
        later_here = []
        if "define" in cmds:
            stmts = []
            for _ in range(r.choice([1, 1, 2, 3])):
                expr, kind = self.value_expr(sc, True, title) if r.random() < 0.7 else self.path(
                    sc, "seqs seqn seqm map str none missing")
                if r.random() < 0.2 and kind != "any" and not expr.startswith(("string:", "not:", "exists:", "attrs")):
                    expr = "nocall:" + expr
                    self.used.add("nocall:")
                name = self.fresh("v")
                scope = r.choice(["", "", "local ", "global "])
                if scope == "global ":
                    self.global_defs.add(name)
                    later_here.append(name)
                    self.used.add("define-global")
                stmts.append(scope + name + " " + expr)
                self.add(sc, name, kind if kind in sc else "any")
            tal.append(("tal:define", r.choice(["; ", ";", ";\n   "]).join(stmts)))
        if "condition" in cmds:
            tal.append(("tal:condition", self.cond_expr(sc)))
        if "repeat" in cmds and loop < 3:
            var = self.fresh("r")
            is_iter = False
            c = r.random()
            if c < 0.08 and not loop and not macro and not self.iter_used:
                expr, kind, is_iter, self.iter_used = "it1", "str", True, True
                self.used.add("repeat-iterator")
            elif c < 0.2:
                expr, kind = self.path(sc, "none missing")[0], "any"
                self.used.add("repeat-nothing")
            elif c < 0.3:
                expr, kind = self.path(sc, "missing")[0] + self.bar() + self.path(sc, "seqs")[0], "str"
            elif c < 0.36:
                expr, kind = r.choice(["s1", "s2", "m1/k1"]), "str"      # a string is a sequence
                self.used.add("repeat-string")
            else:
                expr, k = self.path(sc, "seqs seqs seqn seqm")
                kind = {"seqs": "str", "seqn": "num", "seqm": "mapitem"}[k]
            tal.append(("tal:repeat", var + " " + expr))
            self.add(sc, var, kind)
            sc["rep"].append((var, is_iter))
            loop += 1
        else:
            cmds = [c for c in cmds if c != "repeat"]
        if "cr" in cmds:
            which = "tal:replace" if void or r.random() < 0.4 else "tal:content"
            cmds[cmds.index("cr")] = which[4:]
            kw = ""
            if self.structure and r.random() < 0.2:
                kw = "structure "
                self.used.add("structure")
            elif self.risky == "text-keyword" and r.random() < 0.7:
                kw = "\x00text \x01\x02"
            tal.append((which, kw + self.value_expr(sc, False, title)[0]))
        if "attributes" in cmds:
            names = r.sample(self.ATTRS + ["data-new"], r.choice([1, 1, 2, 3]))
            tal.append(("tal:attributes", r.choice(["; ", ";"]).join(
                a + " " + self.value_expr(sc, True, title)[0] for a in names)))
        if "omit-tag" in cmds:
            c = r.random()
            tal.append(("tal:omit-tag", None if c < 0.2 else "" if c < 0.45 else self.cond_expr(sc)))
        if metal:
            tal.append(metal)
            self.used.add(metal[0][6:])
        if cmds:
            self.subsets.add(tuple(cmds))
        every = static + tal
        r.shuffle(every)            # TAL priority must not depend on source order
        out = ["<%s%s>" % (tag, "".join(" " + self.attr_text(k, v) for k, v in every))]
        if not void:
            out.append(self.children(depth + 1, sc, loop, macro))
            if metal and metal[0] == "metal:define-macro":
                while self.pending:                # every declared slot appears
                    out.append(self.element(depth + 1, sc, loop, 1, ("metal:define-slot", self.pending.pop())))
            out.append("</%s>" % tag)
        self.later.extend(later_here)
        return "".join(out)

    def children(self, depth: int, sc: dict, loop: int, macro: int) -> str:
        """macro: 0 = page flow, 1 = macro body (slots may be declared), 2 = fill-slot content."""
        r, out = self.rng, []
        if depth > self.max_depth or self.elements > 40:
            return self.text()
        for _ in range(r.choice([0, 1, 1, 2, 2, 3]) if depth > 1 else r.randint(2, 4)):
            c = r.random()
            if c < 0.35:
                out.append(self.text())
            elif c < 0.45 and self.use_metal and self.available_macros(macro):
                out.append(self.use_macro(depth, sc, loop, macro))
            elif c < 0.55 and macro == 1 and self.pending:
                out.append(self.element(depth, sc, loop, 1, ("metal:define-slot", self.pending.pop())))
            else:
                out.append(self.element(depth, sc, loop, macro))
        return "".join(out)

    def available_macros(self, macro: int) -> list:
        got = [("lib/macros/" + m, s) for m, s in self.lib.items()]
        if not macro:                   # page macros are never used from inside a macro
            got += [("page/macros/" + m, s) for m, s in self.page_macros.items()]
        return got

    def use_macro(self, depth: int, sc: dict, loop: int, macro: int) -> str:
        r = self.rng
        path, slots = r.choice(self.available_macros(macro))
        self.used.add("use-macro")
        out = ["<div %s>ignored " % self.attr_text("metal:use-macro", path)]
        for s in slots:
            if r.random() < 0.65:
                out.append(self.element(depth + 1, sc, loop, 2, ("metal:fill-slot", s)))
                out.append(r.choice(["", " junk "]))
        out.append("</div>")
        return "".join(out)

    def macro_def(self, name: str, registry: dict) -> str:
        slots = [self.fresh("s") for _ in range(self.rng.choice([0, 1, 1, 2]))]
        self.pending = list(slots)
        text = self.element(1, self.base_scope(), 0, 1, ("metal:define-macro", name))
        registry[name] = slots          # usable only after its own definition: no recursion
        return text

    def gen_lib(self) -> str:
        out = ["<html><body>"]
        for _ in range(self.rng.randint(1, 3)):
            out.append(self.macro_def(self.fresh("m"), self.lib))
            out.append("\n")
        return "".join(out) + "</body></html>"

    def gen_page(self) -> str:
        r = self.rng
        out = [r.choice(["", "<!DOCTYPE html>\n"])]
        sc = self.base_scope()
        for _ in range(r.randint(1, 4)):
            if self.use_metal and r.random() < 0.12:
                out.append(self.macro_def(self.fresh("pm"), self.page_macros))
            else:
                out.append(self.element(1, sc))
            out.append(r.choice(["", "\n", " mid "]))
        return "".join(out)


class DocGen:
    """TAL-free HTML documents: void elements, unclosed <p>/<li>, entities, comments,
    doctype, boolean attributes, quoting styles, upper-case names, <script>/<style>
    (with markup metacharacters only as a risky token, see variants())."""

    TEXT = ["plain", "a &amp; b", "&lt;x&gt;", "&copy;&nbsp;&eacute;", "&#169; &#xA9;", "&bogus; &", "1 < 2",
            "AT&T", "q\"q 'r'", "\n\t", "tab\there", "&amp;amp;", "x > y"]
    AVAL = ['"v"', "'v'", "v", '"a&amp;b"', '"a&b=c"', "'say \"hi\"'", '"it\'s"', '""', '"&lt;tag&gt;"', '"caf&eacute;"',
            "a/b?c=d", '" sp ace "']

    def __init__(self, rng, cdata_meta: bool = False):
        self.rng, self.cdata_meta = rng, cdata_meta
        self.used: typing.Set[str] = set()

    def attrs(self, tag: str) -> str:
        r, out = self.rng, []
        for a in r.sample(["class", "id", "title", "href", "data-k", "LANG", "Style"], r.choice([0, 0, 1, 2, 3])):
            out.append(" %s%s=%s%s" % (a, r.choice(["", "", " "]), r.choice(["", "", " "]), r.choice(self.AVAL)))
        if r.random() < 0.25:
            out.append(" " + r.choice(["checked", "disabled", "hidden", "SELECTED"]))
            self.used.add("boolean-attr")
        if r.random() < 0.12:
            # namespace declarations and namespaced attributes of other vocabularies (XHTML, inline SVG/MathML):
            # attributes like any other to a document that uses no TAL
            out.append(" " + r.choice(['xmlns="http://www.w3.org/1999/xhtml"', 'xmlns="http://www.w3.org/2000/svg"',
                                       'xmlns:xlink="http://www.w3.org/1999/xlink"', 'xml:lang="en"', 'xlink:href="#a"',
                                       'XMLNS="http://www.w3.org/1998/Math/MathML"', "xmlns='urn:x'", 'xmlns:tal2="urn:not-tal"']))
            self.used.add("namespace-attr")
        return "".join(out)

    def node(self, depth: int) -> str:
        r = self.rng
        c = r.random()
        if c < 0.3 or depth > 4:
            self.used.add("text")
            return r.choice(self.TEXT)
        if c < 0.38:
            self.used.add("comment")
            return "<!--%s-->" % r.choice([" c ", "a -- b", "<b>not a tag</b>", "", " &amp; "])
        if c < 0.5:
            tag = r.choice(["br", "hr", "img", "input", "meta", "link", "BR"])
            self.used.add("void")
            return "<%s%s%s>" % (tag, self.attrs(tag), r.choice(["", "", " /", "/"]))
        if c < 0.56:
            self.used.add("unclosed")
            tag = r.choice(["p", "li"])
            wrap = "div" if tag == "p" else "ul"
            return "<%s>%s</%s>" % (wrap, "".join("<%s%s>%s" % (tag, self.attrs(tag), self.node(depth + 2))
                                                  for _ in range(r.randint(1, 3))), wrap)
        if c < 0.6:
            self.used.add("pi")
            return "<?php echo 1 ?>"
        if c < 0.66:
            self.used.add("cdata-element")
            tag = r.choice(["script", "style"])
            body = r.choice(["var a = 1;", "p { color: red }", ""])
            if self.cdata_meta:
                body = "\x00%s\x01%s\x02" % (r.choice(["if (a < b && c) x();", "a > b { }", 'x = "</" + "b>";']), body)
            return "<%s>%s</%s>" % (tag, body, tag)
        if c < 0.7:
            self.used.add("empty-element-syntax")
            return "<span%s/>" % self.attrs("span")
        tag = r.choice(["div", "p", "span", "b", "em", "ul", "table", "a", "H1", "Section", "textarea", "title"])
        self.used.add("element")
        return "<%s%s>%s</%s>" % (tag, self.attrs(tag), "".join(
            self.node(depth + 1) for _ in range(r.randint(0, 3))), tag)

    def gen(self) -> str:
        r = self.rng
        out = [r.choice(["", "<!DOCTYPE html>", '<!DOCTYPE HTML PUBLIC "-//W3C//DTD HTML 4.01//EN">', "<!doctype html>\n"])]
        if out[0]:
            self.used.add("doctype")
        body = "".join(self.node(1) for _ in range(r.randint(1, 5)))
        if r.random() < 0.5:
            body = "<html><head><title>t &amp; t</title></head><body%s>%s</body></html>" % (self.attrs("body"), body)
        return out[0] + body
