"""Loaded by the real bin/pygopherd process when /verif/inject is on PYTHONPATH.
Does nothing unless told to by environment variables:

  VF_YIELD=<probability>,<seed>   schedule perturbation: shorter switch interval and, at
                                  statement boundaries of pygopherd / shelve / dbm code only,
                                  a seeded chance to yield the CPU (sleep(0) or 0.2-2 ms)
  VF_AUDIT_LOG=<file>             append 'pid tid monotonic event path...' lines for
                                  open / os.remove / os.rename / subprocess.Popen events
  VF_RESWARN=<file>               ResourceWarning -> file
  VF_SYSLOG_TO_STDOUT=1           (unused)
"""
import os
import sys


def _yield_injection(spec):
    import random
    import threading
    import time

    try:
        p, seed = spec.split(",")
        p = float(p)
        seed = int(seed)
    except Exception:
        return
    sys.setswitchinterval(1e-5)
    mon = getattr(sys, "monitoring", None)
    if mon is None:
        return
    tool = mon.PROFILER_ID
    try:
        mon.use_tool_id(tool, "vf-yield")
    except ValueError:
        return
    rng = random.Random(seed)
    lock = threading.Lock()
    counter = [0]
    wanted = ("/pygopherd/handlers/", "/pygopherd/gopherentry.py", "/pygopherd/fileext.py", "/shelve.py", "/dbm/")

    def on_line(code, lineno):
        fn = code.co_filename
        if not any(w in fn for w in wanted):
            return mon.DISABLE
        with lock:
            r = rng.random()
            d = rng.choice((0, 0, 0, 0.0002, 0.001, 0.002))
        if r < p:
            counter[0] += 1
            time.sleep(d)

    mon.register_callback(tool, mon.events.LINE, on_line)
    mon.set_events(tool, mon.events.LINE)


def _audit_log(path):
    import threading
    import time

    fp = open(path, "ab", buffering=0)
    wanted = {"open", "os.remove", "os.rename", "subprocess.Popen", "os.fork"}
    state = threading.local()

    def hook(name, args):
        if name not in wanted or getattr(state, "busy", False):
            return
        state.busy = True
        try:
            a0 = args[0] if args else ""
            if isinstance(a0, bytes):
                a0 = a0.decode("utf-8", "backslashreplace")
            mode = args[1] if name == "open" and len(args) > 1 else ""
            fp.write(("%d %d %.6f %s %s %s\n" % (os.getpid(), threading.get_ident(), time.monotonic(), name, mode, a0)
                      ).encode("utf-8", "backslashreplace"))
        except Exception:
            pass
        finally:
            state.busy = False

    sys.addaudithook(hook)


def _reswarn(path):
    import warnings

    fp = open(path, "a")
    warnings.simplefilter("always", ResourceWarning)
    old = warnings.showwarning

    def show(message, category, filename, lineno, file=None, line=None):
        if issubclass(category, ResourceWarning):
            fp.write("%s %s:%s\n" % (message, filename, lineno))
            fp.flush()
        else:
            old(message, category, filename, lineno, file, line)

    warnings.showwarning = show


if os.environ.get("VF_YIELD"):
    _yield_injection(os.environ["VF_YIELD"])
if os.environ.get("VF_AUDIT_LOG"):
    _audit_log(os.environ["VF_AUDIT_LOG"])
if os.environ.get("VF_RESWARN"):
    _reswarn(os.environ["VF_RESWARN"])
